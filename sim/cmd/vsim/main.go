// Command vsim is the driver of the C19 check: it builds an instrumented
// scratch copy of the tree under test, runs seeded simulated executions in
// worker processes, evaluates the oracles, minimises and replays violations and
// writes the evidence file.
package main

import (
	"encoding/json"
	"fmt"
	"os"
	"path/filepath"
	"strconv"
)

func main() {
	code := 0
	func() {
		defer func() {
			if r := recover(); r != nil {
				if e, ok := r.(exit2); ok {
					fmt.Fprintln(os.Stderr, "vsim: cannot decide (exit 2):", e.msg)
					code = 2
					return
				}
				panic(r)
			}
		}()
		code = realMain(os.Args[1:])
	}()
	os.Exit(code)
}

func usage() int {
	fmt.Fprintln(os.Stderr, `usage:
  vsim check  -tier quick|thorough [-seed N] [-budget S]   run the C19 check, write evidence
  vsim replay <file>                                        replay a violation file
  vsim build  -out DIR                                      only build the scratch copies (kept)
  vsim corpus                                               harvest /repo test literals into /verif/corpus
  vsim selftest determinism [-seeds N]                      prove replay determinism`)
	return 2
}

func realMain(args []string) int {
	if len(args) == 0 {
		return usage()
	}
	switch args[0] {
	case "build":
		out := ""
		for i := 1; i < len(args)-1; i++ {
			if args[i] == "-out" {
				out = args[i+1]
			}
		}
		if out == "" {
			return usage()
		}
		os.MkdirAll(out, 0o755)
		b := build(out, true)
		jb, _ := json.MarshalIndent(b, "", " ")
		os.WriteFile(filepath.Join(out, "built.json"), jb, 0o644)
		ib, _ := json.MarshalIndent(struct {
			Files, Funcs, Sites int
			Seams               map[string]int
			Unseamed, TypeErrs  []string
			EcoDirs             []string
		}{b.Instr.Files, b.Instr.Funcs, len(b.Instr.Sites), b.Instr.Seams, b.Instr.Unseamed, b.Instr.TypeErrs, b.Instr.EcoDirs}, "", " ")
		fmt.Println(string(jb))
		fmt.Println(string(ib))
		return 0
	case "check":
		cfg := checkCfg{tier: "quick", seed: 1, workers: 16}
		if s := os.Getenv("VERIF_SEED"); s != "" {
			if n, err := strconv.ParseUint(s, 10, 64); err == nil {
				cfg.seed = n
			} else if n, err := strconv.ParseInt(s, 10, 64); err == nil {
				cfg.seed = uint64(n)
			}
		}
		budget := -1.0
		for i := 1; i < len(args); i++ {
			switch args[i] {
			case "-tier":
				i++
				cfg.tier = args[i]
			case "-seed":
				i++
				n, err := strconv.ParseUint(args[i], 10, 64)
				if err != nil {
					return usage()
				}
				cfg.seed = n
			case "-budget":
				i++
				f, err := strconv.ParseFloat(args[i], 64)
				if err != nil {
					return usage()
				}
				budget = f
			case "-workers":
				i++
				n, _ := strconv.Atoi(args[i])
				if n > 0 {
					cfg.workers = n
				}
			default:
				return usage()
			}
		}
		switch cfg.tier {
		case "quick":
			cfg.budgetS, cfg.minBatches, cfg.maxBatches, cfg.detBatches, cfg.parBatches, cfg.minimiseS = 75, 48, 6000, 8, 4, 60
		case "thorough":
			cfg.budgetS, cfg.minBatches, cfg.maxBatches, cfg.detBatches, cfg.parBatches, cfg.minimiseS = 1200, 64, 1000000, 64, 64, 300
			if s := os.Getenv("VERIF_BUDGET_S"); s != "" {
				if f, err := strconv.ParseFloat(s, 64); err == nil && f > 0 {
					cfg.budgetS = f
				}
			}
		default:
			return usage()
		}
		if budget > 0 {
			cfg.budgetS = budget
		}
		if s := os.Getenv("VERIF_MINIMISE_S"); s != "" {
			// development knob (mutant catalogue): less time spent minimising
			if f, err := strconv.ParseFloat(s, 64); err == nil && f >= 0 {
				cfg.minimiseS = f
			}
		}
		return check(cfg)
	case "selftest":
		if len(args) < 2 || args[1] != "determinism" {
			return usage()
		}
		seeds, batches := 30, 3
		for i := 2; i < len(args)-1; i++ {
			switch args[i] {
			case "-seeds":
				seeds, _ = strconv.Atoi(args[i+1])
			case "-batches":
				batches, _ = strconv.Atoi(args[i+1])
			}
		}
		return selftestDeterminism(seeds, batches)
	case "replay":
		if len(args) != 2 {
			return usage()
		}
		return replay(args[1])
	case "corpus":
		c := loadCorpus(filepath.Join(verifDir(), "corpus"))
		harvest(repoDir(), c)
		if err := saveCorpus(filepath.Join(verifDir(), "corpus"), c); err != nil {
			fail2("%v", err)
		}
		n := 0
		for _, xs := range c.Eco {
			n += len(xs)
		}
		fmt.Printf("corpus: %d ecosystems, %d strings, %d vers strings\n", len(c.Eco), n, len(c.Vers))
		return 0
	}
	return usage()
}
