// Command vsim is the driver of the C19 check: it builds an instrumented
// scratch copy of the tree under test, runs seeded simulated executions in
// worker processes, evaluates the oracles, minimises and replays violations and
// writes the evidence file.
package main

import (
	"encoding/json"
	"fmt"
	"os"
	"path/filepath"
)

func main() {
	code := 0
	func() {
		defer func() {
			if r := recover(); r != nil {
				if e, ok := r.(exit2); ok {
					fmt.Fprintln(os.Stderr, "vsim: cannot decide (exit 2):", e.msg)
					code = 2
					return
				}
				panic(r)
			}
		}()
		code = realMain(os.Args[1:])
	}()
	os.Exit(code)
}

func usage() int {
	fmt.Fprintln(os.Stderr, `usage:
  vsim check  -tier quick|thorough [-seed N] [-budget S]   run the C19 check, write evidence
  vsim replay <file>                                        replay a violation file
  vsim build  -out DIR                                      only build the scratch copies (kept)
  vsim corpus                                               harvest /repo test literals into /verif/corpus
  vsim selftest determinism [-seeds N]                      prove replay determinism`)
	return 2
}

func realMain(args []string) int {
	if len(args) == 0 {
		return usage()
	}
	switch args[0] {
	case "build":
		out := ""
		for i := 1; i < len(args)-1; i++ {
			if args[i] == "-out" {
				out = args[i+1]
			}
		}
		if out == "" {
			return usage()
		}
		os.MkdirAll(out, 0o755)
		b := build(out, true)
		jb, _ := json.MarshalIndent(b, "", " ")
		os.WriteFile(filepath.Join(out, "built.json"), jb, 0o644)
		ib, _ := json.MarshalIndent(struct {
			Files, Funcs, Sites int
			Seams               map[string]int
			Unseamed, TypeErrs  []string
			EcoDirs             []string
		}{b.Instr.Files, b.Instr.Funcs, len(b.Instr.Sites), b.Instr.Seams, b.Instr.Unseamed, b.Instr.TypeErrs, b.Instr.EcoDirs}, "", " ")
		fmt.Println(string(jb))
		fmt.Println(string(ib))
		return 0
	case "corpus":
		c := loadCorpus(filepath.Join(verifDir(), "corpus"))
		harvest(repoDir(), c)
		if err := saveCorpus(filepath.Join(verifDir(), "corpus"), c); err != nil {
			fail2("%v", err)
		}
		n := 0
		for _, xs := range c.Eco {
			n += len(xs)
		}
		fmt.Printf("corpus: %d ecosystems, %d strings, %d vers strings\n", len(c.Eco), n, len(c.Vers))
		return 0
	}
	return usage()
}
