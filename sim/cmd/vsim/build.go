package main

import (
	"bytes"
	"encoding/json"
	"fmt"
	"io"
	"io/fs"
	"os"
	"os/exec"
	"path/filepath"
	"sort"
	"strings"
	"time"

	"verifsim/instr"
)

// Built describes a scratch build of the tree under test.
type Built struct {
	Dir       string        `json:"dir"`
	Inst      string        `json:"inst"`
	Plain     string        `json:"plain"`
	SimInst   string        `json:"sim_inst"`
	SimPlain  string        `json:"sim_plain"`
	SimPar    string        `json:"sim_par"`
	Corpus    string        `json:"corpus"`
	Instr     *instr.Result `json:"-"`
	GoBin     string        `json:"go_bin"`
	GoVersion string        `json:"go_version"`
	GoRoot    string        `json:"goroot"`
	Overlay   string        `json:"overlay"`
	RepoHead  string        `json:"repo_head"`
	RepoDirty string        `json:"repo_dirty"`
	BuildS    float64       `json:"build_s"`
	Fidelity  string        `json:"fidelity"`
}

type exit2 struct{ msg string }

func fail2(f string, a ...any) { panic(exit2{fmt.Sprintf(f, a...)}) }

func verifDir() string {
	if d := os.Getenv("VERIF_DIR"); d != "" {
		return d
	}
	exe, err := os.Executable()
	if err == nil {
		d := filepath.Dir(filepath.Dir(exe)) // <verif>/bin/vsim
		if _, err := os.Stat(filepath.Join(d, "sim", "_rt")); err == nil {
			return d
		}
	}
	return "/verif"
}

func outDir() string {
	if d := os.Getenv("VERIF_OUT"); d != "" {
		return d
	}
	return verifDir()
}

func repoDir() string {
	if d := os.Getenv("VERIF_REPO"); d != "" {
		return d
	}
	return "/repo"
}

func goEnv(goroot string) []string {
	env := []string{}
	for _, kv := range os.Environ() {
		k := kv[:strings.IndexByte(kv+"=", '=')]
		switch k {
		case "GOFLAGS", "GOPROXY", "GOTOOLCHAIN", "GOROOT", "GOMAXPROCS", "GORACE", "GODEBUG", "GOSUMDB", "GOWORK":
			continue
		}
		env = append(env, kv)
	}
	env = append(env, "GOFLAGS=-mod=mod", "GOPROXY=off", "GOTOOLCHAIN=local", "GOWORK=off", "CGO_ENABLED=1")
	if goroot != "" {
		env = append(env, "GOROOT="+goroot)
	}
	return env
}

// resolveGo finds the toolchain the repository itself builds with.
func resolveGo(repo string) (gobin, goroot, version string) {
	if gr := os.Getenv("VERIF_GOROOT"); gr != "" {
		gobin = filepath.Join(gr, "bin", "go")
		goroot = gr
	} else {
		cmd := exec.Command("go", "env", "GOROOT")
		cmd.Dir = repo
		env := []string{}
		for _, kv := range os.Environ() {
			if strings.HasPrefix(kv, "GOTOOLCHAIN=") || strings.HasPrefix(kv, "GOFLAGS=") || strings.HasPrefix(kv, "GOPROXY=") || strings.HasPrefix(kv, "GOSUMDB=") || strings.HasPrefix(kv, "GOROOT=") {
				continue
			}
			env = append(env, kv)
		}
		cmd.Env = append(env, "GOTOOLCHAIN=auto", "GOFLAGS=-mod=mod", "GOPROXY=off")
		out, err := cmd.Output()
		if err == nil && strings.TrimSpace(string(out)) != "" {
			goroot = strings.TrimSpace(string(out))
			gobin = filepath.Join(goroot, "bin", "go")
		}
		if _, err := os.Stat(gobin); gobin == "" || err != nil {
			// fall back to the newer pre-installed toolchain
			p, err := exec.LookPath("go1.26.8")
			if err != nil {
				fail2("no usable Go toolchain found (go env GOROOT failed and go1.26.8 is absent)")
			}
			c := exec.Command(p, "env", "GOROOT")
			c.Env = append(os.Environ(), "GOTOOLCHAIN=local")
			o, err := c.Output()
			if err != nil {
				fail2("go1.26.8 env GOROOT: %v", err)
			}
			goroot = strings.TrimSpace(string(o))
			gobin = filepath.Join(goroot, "bin", "go")
		}
	}
	c := exec.Command(gobin, "version")
	c.Env = goEnv(goroot)
	o, err := c.Output()
	if err != nil {
		fail2("%s version: %v", gobin, err)
	}
	return gobin, goroot, strings.TrimSpace(string(o))
}

func copyTree(src, dst string) error {
	return filepath.WalkDir(src, func(p string, d fs.DirEntry, err error) error {
		if err != nil {
			return err
		}
		rel, _ := filepath.Rel(src, p)
		if d.IsDir() {
			if d.Name() == ".git" || (rel != "." && d.Name() == "zz_sim") {
				return filepath.SkipDir
			}
			return os.MkdirAll(filepath.Join(dst, rel), 0o755)
		}
		if !d.Type().IsRegular() {
			return nil
		}
		in, err := os.Open(p)
		if err != nil {
			return err
		}
		defer in.Close()
		out, err := os.Create(filepath.Join(dst, rel))
		if err != nil {
			return err
		}
		if _, err := io.Copy(out, in); err != nil {
			out.Close()
			return err
		}
		return out.Close()
	})
}

func run(dir string, env []string, name string, args ...string) (string, error) {
	cmd := exec.Command(name, args...)
	cmd.Dir = dir
	cmd.Env = env
	var buf bytes.Buffer
	cmd.Stdout = &buf
	cmd.Stderr = &buf
	err := cmd.Run()
	return buf.String(), err
}

func gitInfo(repo string) (head, dirty string) {
	o, err := run(repo, os.Environ(), "git", "rev-parse", "HEAD")
	if err == nil {
		head = strings.TrimSpace(o)
	}
	o, err = run(repo, os.Environ(), "git", "status", "--porcelain")
	if err == nil {
		o = strings.TrimSpace(o)
		if o == "" {
			dirty = "clean"
		} else {
			dirty = fmt.Sprintf("dirty(%d paths)", len(strings.Split(o, "\n")))
		}
	}
	return
}

func writeRegistry(dir string, mod string, ecoDirs []string) error {
	var b strings.Builder
	b.WriteString("// Code generated by vsim build; DO NOT EDIT.\n\npackage harness\n\nimport (\n")
	for _, d := range ecoDirs {
		fmt.Fprintf(&b, "\teco_%s %q\n", d, mod+"/pkg/ecosystem/"+d)
	}
	b.WriteString(")\n\nfunc init() {\n")
	for _, d := range ecoDirs {
		fmt.Fprintf(&b, "\tregister(%q, adapt(&eco_%s.Ecosystem{}))\n", d, d)
	}
	b.WriteString("}\n")
	return os.WriteFile(filepath.Join(dir, "ecos_gen.go"), []byte(b.String()), 0o644)
}

func makeOverlay(scratch, goroot string) (string, error) {
	src := filepath.Join(goroot, "src", "sync", "pool.go")
	b, err := os.ReadFile(src)
	if err != nil {
		return "", err
	}
	const needle = "if runtime_randn(4) == 0 {"
	if bytes.Count(b, []byte(needle)) != 1 {
		return "", fmt.Errorf("sync/pool.go of %s does not contain the expected race-mode drop line exactly once", goroot)
	}
	// In race mode the real pool drops a random quarter of all Puts. The overlay
	// makes it drop every Put: legal (a Pool may drop anything at any time),
	// deterministic, and it removes the happens-before edges that object reuse
	// inside fmt and regexp would otherwise create between unrelated tasks.
	b = bytes.Replace(b, []byte(needle), []byte("if true || runtime_randn(4) == 0 {"), 1)
	dst := filepath.Join(scratch, "overlay_sync_pool.go")
	if err := os.WriteFile(dst, b, 0o644); err != nil {
		return "", err
	}
	ov := map[string]map[string]string{"Replace": {src: dst}}
	jb, _ := json.Marshal(ov)
	ovp := filepath.Join(scratch, "overlay.json")
	return ovp, os.WriteFile(ovp, jb, 0o644)
}

// build makes the scratch copies, instruments, compiles, and runs the fidelity gate.
func build(scratch string, fidelity bool) *Built {
	t0 := time.Now()
	repo := repoDir()
	vd := verifDir()
	b := &Built{Dir: scratch, Inst: filepath.Join(scratch, "inst"), Plain: filepath.Join(scratch, "plain")}
	b.GoBin, b.GoRoot, b.GoVersion = resolveGo(repo)
	b.RepoHead, b.RepoDirty = gitInfo(repo)
	for _, d := range []string{b.Inst, b.Plain} {
		if err := copyTree(repo, d); err != nil {
			fail2("copy %s: %v", repo, err)
		}
		if err := copyTree(filepath.Join(vd, "sim", "_rt"), filepath.Join(d, "zz_sim")); err != nil {
			fail2("copy runtime: %v", err)
		}
	}
	os.Setenv("GOROOT", b.GoRoot) // for go/importer "source"
	res, err := instr.Instrument(b.Inst, true)
	if err != nil {
		fail2("instrument: %v", err)
	}
	b.Instr = res
	if !res.LinesKept {
		fail2("instrumenter moved a line")
	}
	if len(res.EcoDirs) == 0 {
		fail2("no ecosystem packages found under pkg/ecosystem")
	}
	// hot yield sites (statements with atomic / sync operations) for the simulator
	{
		var sb strings.Builder
		sb.WriteString("// Code generated by vsim build; DO NOT EDIT.\n\npackage simrt\n\nfunc init() {\n\thotList = []uint32{")
		for _, st := range res.Sites {
			if st.Hot {
				fmt.Fprintf(&sb, "%d, ", st.ID)
			}
		}
		sb.WriteString("}\n}\n")
		for _, d := range []string{b.Inst, b.Plain} {
			if err := os.WriteFile(filepath.Join(d, "zz_sim", "simrt", "hot_gen.go"), []byte(sb.String()), 0o644); err != nil {
				fail2("hot sites: %v", err)
			}
		}
	}
	for _, d := range []string{b.Inst, b.Plain} {
		if err := writeRegistry(filepath.Join(d, "zz_sim", "harness"), res.ModPath, res.EcoDirs); err != nil {
			fail2("registry: %v", err)
		}
	}
	if res.ModPath != "github.com/alowayed/go-univers" {
		// runtime sources import the library by its module path
		fail2("module path changed to %q; the runtime sources expect github.com/alowayed/go-univers", res.ModPath)
	}
	ov, err := makeOverlay(scratch, b.GoRoot)
	if err != nil {
		fail2("overlay: %v", err)
	}
	b.Overlay = ov
	env := goEnv(b.GoRoot)
	bin := filepath.Join(scratch, "bin")
	os.MkdirAll(bin, 0o755)
	b.SimPlain = filepath.Join(bin, "sim-plain")
	b.SimInst = filepath.Join(bin, "sim-inst")
	b.SimPar = filepath.Join(bin, "sim-par")
	type job struct {
		dir  string
		args []string
	}
	jobs := []job{
		{b.Plain, []string{"build", "-o", b.SimPlain, "./zz_sim/cmd/sim"}},
		{b.Inst, []string{"build", "-race", "-overlay", ov, "-o", b.SimInst, "./zz_sim/cmd/sim"}},
		{b.Plain, []string{"build", "-race", "-overlay", ov, "-o", b.SimPar, "./zz_sim/cmd/sim"}},
	}
	errs := make(chan error, len(jobs))
	for _, j := range jobs {
		go func(j job) {
			out, err := run(j.dir, env, b.GoBin, j.args...)
			if err != nil {
				errs <- fmt.Errorf("go %s in %s: %v\n%s", strings.Join(j.args, " "), j.dir, err, out)
				return
			}
			errs <- nil
		}(j)
	}
	for range jobs {
		if err := <-errs; err != nil {
			fail2("build failed (the tree under test, or its instrumented copy, does not compile):\n%v", err)
		}
	}
	// site table next to the binaries
	sb, _ := json.Marshal(res.Sites)
	os.WriteFile(filepath.Join(scratch, "sites.json"), sb, 0o644)

	// corpus: committed corpus ∪ string literals of the current tree's tests
	c := loadCorpus(filepath.Join(vd, "corpus"))
	harvest(repo, c)
	b.Corpus = filepath.Join(scratch, "corpus.json")
	cb, _ := json.Marshal(c)
	os.WriteFile(b.Corpus, cb, 0o644)

	if fidelity {
		b.Fidelity = fidelityGate(b, env)
	} else {
		b.Fidelity = "skipped"
	}
	b.BuildS = time.Since(t0).Seconds()
	return b
}

// fidelityGate runs the repository's own tests on the instrumented copy (with a
// dormant scheduler) and on the plain copy; outcomes must be identical.
func fidelityGate(b *Built, env []string) string {
	type res struct {
		m   map[string]string
		err string
	}
	runTests := func(dir string, extra []string) res {
		e := append(append([]string{}, env...), extra...)
		out, _ := run(dir, e, b.GoBin, "test", "-json", "-vet=off", "-count=1", "-timeout", "300s", "./cmd/...", "./pkg/...")
		m := map[string]string{}
		dec := json.NewDecoder(strings.NewReader(out))
		for {
			var ev struct {
				Action  string
				Package string
				Test    string
			}
			if err := dec.Decode(&ev); err != nil {
				break
			}
			if ev.Action == "pass" || ev.Action == "fail" || ev.Action == "skip" {
				m[ev.Package+"::"+ev.Test] = ev.Action
			}
		}
		if len(m) == 0 {
			return res{m, out}
		}
		return res{m, ""}
	}
	ch := make(chan res, 2)
	go func() { ch <- runTests(b.Plain, nil) }()
	go func() { ch <- runTests(b.Plain, nil) }()
	ri := runTests(b.Inst, []string{"GOMAXPROCS=1", "GODEBUG=asyncpreemptoff=1"})
	rp, rp2 := <-ch, <-ch
	flaky := 0
	for k, v := range rp.m {
		if rp2.m[k] != v {
			// outcome differs between two plain runs: the tree's own test is flaky
			delete(rp.m, k)
			delete(ri.m, k)
			flaky++
		}
	}
	if len(rp.m) == 0 || len(ri.m) == 0 {
		fail2("fidelity gate: no test results (plain %d, instrumented %d)\n%s\n%s", len(rp.m), len(ri.m), rp.err, ri.err)
	}
	differs := func() bool {
		for k, v := range rp.m {
			if ri.m[k] != v {
				return true
			}
		}
		return false
	}
	if differs() {
		// Once more before calling it a difference: a test binary that was killed
		// or timed out on a loaded machine shows up as a failed package without
		// test results. Only an outcome that differs in both instrumented runs
		// counts (a behaviour the instrumenter changed is there every time).
		ri2 := runTests(b.Inst, []string{"GOMAXPROCS=1", "GODEBUG=asyncpreemptoff=1"})
		for k, v := range rp.m {
			if ri.m[k] != v && ri2.m[k] == v {
				ri.m[k] = v
			}
		}
	}
	var diff []string
	for k, v := range rp.m {
		if ri.m[k] != v {
			diff = append(diff, fmt.Sprintf("%s: plain=%s instrumented=%s", k, v, ri.m[k]))
		}
	}
	for k, v := range ri.m {
		if _, ok := rp.m[k]; !ok {
			diff = append(diff, fmt.Sprintf("%s: plain=<absent> instrumented=%s", k, v))
		}
	}
	if len(diff) > 0 {
		sort.Strings(diff)
		if len(diff) > 10 {
			diff = diff[:10]
		}
		fail2("fidelity gate: the instrumented copy behaves differently under the repository's own tests (harness fault, not a violation):\n%s", strings.Join(diff, "\n"))
	}
	npass := 0
	for _, v := range rp.m {
		if v == "pass" {
			npass++
		}
	}
	return fmt.Sprintf("identical outcomes on %d test results (%d pass) between plain and instrumented copies (%d results flaky between two plain runs excluded)", len(rp.m), npass, flaky)
}
