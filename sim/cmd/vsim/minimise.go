package main

import (
	"encoding/json"
	"fmt"
	"os"
	"path/filepath"
	"time"
)

var minCounter int

// tryCases runs the given cases in a fresh process and reports whether a
// violation with the same class and signature occurs in the last case; it also
// returns the last run's result (with its recorded switch list).
func tryCases(sp *simProc, cases []Case, v *Violation) (bool, *RunResult, *Violation) {
	minCounter++
	in := filepath.Join(sp.workdir, fmt.Sprintf("m%d_in.json", minCounter))
	ref := filepath.Join(sp.workdir, fmt.Sprintf("m%d_ref.json", minCounter))
	out := filepath.Join(sp.workdir, fmt.Sprintf("m%d_out.json", minCounter))
	defer os.Remove(in)
	defer os.Remove(ref)
	defer os.Remove(out)
	bt := &Batch{Batch: v.Batch, Cases: cases}
	writeBatch(in, bt)
	sp.refBatch(in, ref)
	bt = readBatch(ref)
	if v.Engine == "ref" {
		if msg := sp.refReverse(in, out); msg != "" {
			return false, nil, nil
		}
		rv := readBatch(out)
		for _, c := range compareRefs(bt, rv) {
			if c.key() == v.key() {
				return true, nil, c
			}
		}
		return false, nil, nil
	}
	tries := 1
	if v.Engine == "par" {
		tries = 8
	}
	for t := 0; t < tries; t++ {
		br, _ := sp.simBatch(ref, out, true, v.Engine == "par", 4)
		if br == nil || len(br.Runs) == 0 {
			continue
		}
		var hr []string
		vs := violationsOf(bt, br, v.Engine, &hr)
		lastIdx := bt.Cases[len(bt.Cases)-1].Spec.Index
		for _, c := range vs {
			if c.key() == v.key() && c.RunIndex == lastIdx {
				var last *RunResult
				for i := range br.Runs {
					if br.Runs[i].Index == lastIdx {
						last = &br.Runs[i]
					}
				}
				c.Cases = bt.Cases
				return true, last, c
			}
		}
	}
	return false, nil, nil
}

func cloneCase(c Case) Case {
	b, _ := json.Marshal(c)
	var d Case
	json.Unmarshal(b, &d)
	return d
}

// dropTask removes task t (0-based) from a spec, renumbering explicit switches.
func dropTask(c Case, t int) Case {
	d := cloneCase(c)
	d.Spec.Tasks = append(d.Spec.Tasks[:t], d.Spec.Tasks[t+1:]...)
	var ex []Switch
	for _, s := range d.Spec.Sched.Explicit {
		id := int32(t + 1)
		if s.Task == id {
			continue
		}
		if s.Task > id {
			s.Task--
		}
		if s.To == id {
			s.To = 0
		} else if s.To > id {
			s.To--
		}
		ex = append(ex, s)
	}
	d.Spec.Sched.Explicit = ex
	return d
}

// dropOps removes ops [from,to) of task t, renumbering explicit switches.
func dropOps(c Case, t, from, to int) Case {
	d := cloneCase(c)
	prog := d.Spec.Tasks[t]
	d.Spec.Tasks[t] = append(append([]Op(nil), prog[:from]...), prog[to:]...)
	var ex []Switch
	id := int32(t + 1)
	n := int32(to - from)
	for _, s := range d.Spec.Sched.Explicit {
		if s.Task == id && s.Kind != 3 {
			if s.Op >= int32(from) && s.Op < int32(to) {
				continue
			}
			if s.Op >= int32(to) {
				s.Op -= n
			}
		}
		ex = append(ex, s)
	}
	d.Spec.Sched.Explicit = ex
	return d
}

// minimise shrinks the cases of a violation while the same class and signature
// persist, each candidate in a fresh process, until the deadline.
func minimise(sp *simProc, v *Violation, deadline time.Time) *Violation {
	best := *v
	ok, last, conf := tryCases(sp, best.Cases, v)
	if !ok {
		best.Detail += " [note: did not reproduce when its batch was re-executed; reported as observed]"
		return &best
	}
	adopt := func(c *Violation) {
		best.Cases = c.Cases
		best.RunPos = len(c.Cases) - 1
		best.Race, best.Mismatch, best.Abort, best.Detail = c.Race, c.Mismatch, c.Abort, c.Detail
	}
	adopt(conf)
	expired := func() bool { return time.Now().After(deadline) }

	if v.Engine == "ref" {
		return minimiseRef(sp, v, &best, deadline)
	}
	// 1. drop the batch prefix (history) if the failing run fails alone; else ddmin the prefix
	if len(best.Cases) > 1 && !expired() {
		only := []Case{best.Cases[len(best.Cases)-1]}
		if ok, l, c := tryCases(sp, only, v); ok {
			adopt(c)
			last = l
		} else {
			// try removing prefix cases one chunk at a time
			chunk := (len(best.Cases) - 1 + 1) / 2
			for chunk >= 1 && !expired() {
				removed := false
				for i := 0; i+chunk <= len(best.Cases)-1 && !expired(); {
					cand := append(append([]Case(nil), best.Cases[:i]...), best.Cases[i+chunk:]...)
					if ok, l, c := tryCases(sp, cand, v); ok {
						adopt(c)
						last = l
						removed = true
					} else {
						i += chunk
					}
				}
				if !removed || chunk == 1 {
					chunk /= 2
				}
			}
		}
	}
	if v.Engine == "par" {
		return &best
	}

	// 2. explicit schedule for the failing case
	fi := len(best.Cases) - 1
	if last != nil && !last.Stats.Truncated && best.Cases[fi].Spec.Sched.Policy != "explicit" && !expired() {
		cand := append([]Case(nil), best.Cases...)
		cc := cloneCase(cand[fi])
		cc.Spec.Sched.Policy = "explicit"
		cc.Spec.Sched.Explicit = last.Switches
		cand[fi] = cc
		if ok, l, c := tryCases(sp, cand, v); ok {
			adopt(c)
			last = l
		}
	}

	replace := func(nc Case) bool {
		cand := append([]Case(nil), best.Cases...)
		cand[fi] = nc
		if ok, l, c := tryCases(sp, cand, v); ok {
			adopt(c)
			last = l
			return true
		}
		return false
	}

	// 3. drop whole tasks
	for t := len(best.Cases[fi].Spec.Tasks) - 1; t >= 0 && !expired(); t-- {
		if len(best.Cases[fi].Spec.Tasks) <= 1 {
			break
		}
		replace(dropTask(best.Cases[fi], t))
	}
	// 4. drop pre-warm operations
	if len(best.Cases[fi].Spec.Prewarm) > 0 && !expired() {
		d := cloneCase(best.Cases[fi])
		d.Spec.Prewarm = nil
		replace(d)
	}
	// 5. ddmin each task's program
	for t := 0; t < len(best.Cases[fi].Spec.Tasks) && !expired(); t++ {
		chunk := (len(best.Cases[fi].Spec.Tasks[t]) + 1) / 2
		for chunk >= 1 && !expired() {
			removed := false
			for i := 0; i+chunk <= len(best.Cases[fi].Spec.Tasks[t]) && !expired(); {
				if replace(dropOps(best.Cases[fi], t, i, i+chunk)) {
					removed = true
				} else {
					i += chunk
				}
			}
			if !removed || chunk == 1 {
				chunk /= 2
			}
		}
	}
	for t := len(best.Cases[fi].Spec.Tasks) - 1; t >= 0 && !expired(); t-- {
		if len(best.Cases[fi].Spec.Tasks) > 1 && len(best.Cases[fi].Spec.Tasks[t]) == 0 {
			replace(dropTask(best.Cases[fi], t))
		}
	}
	// 5b. drop pool entries nothing refers to any more, then any entry not needed
	if !expired() {
		replace(compactPool(best.Cases[fi]))
	}
	shrinkPool(func() Case { return best.Cases[fi] }, replace, expired)
	// 6. remove context switches (only meaningful with an explicit schedule)
	if best.Cases[fi].Spec.Sched.Policy == "explicit" {
		ex := best.Cases[fi].Spec.Sched.Explicit
		chunk := (len(ex) + 1) / 2
		for chunk >= 1 && !expired() {
			removed := false
			for i := 0; i+chunk <= len(best.Cases[fi].Spec.Sched.Explicit) && !expired(); {
				d := cloneCase(best.Cases[fi])
				e := d.Spec.Sched.Explicit
				d.Spec.Sched.Explicit = append(append([]Switch(nil), e[:i]...), e[i+chunk:]...)
				if replace(d) {
					removed = true
				} else {
					i += chunk
				}
			}
			if !removed || chunk == 1 {
				chunk /= 2
			}
		}
	}
	// 7. the minimised file must reproduce 3/3 in fresh processes
	for k := 0; k < 3; k++ {
		if ok, _, _ := tryCases(sp, best.Cases, v); !ok {
			fallback := *v
			if conf != nil {
				fallback.Cases = conf.Cases
				fallback.Race, fallback.Mismatch, fallback.Abort, fallback.Detail = conf.Race, conf.Mismatch, conf.Abort, conf.Detail
			}
			fallback.Detail += " [note: minimised form was not stable 3/3; unminimised batch reported]"
			return &fallback
		}
	}
	return &best
}

// minimiseRef shrinks a forward/reverse reference disagreement: drop cases,
// then tasks and operations of every remaining case.
func minimiseRef(sp *simProc, v *Violation, best *Violation, deadline time.Time) *Violation {
	expired := func() bool { return time.Now().After(deadline) }
	try := func(cases []Case) bool {
		if ok, _, c := tryCases(sp, cases, v); ok {
			best.Cases = c.Cases
			best.RunPos, best.RunIndex, best.Detail = c.RunPos, c.RunIndex, c.Detail
			return true
		}
		return false
	}
	chunk := (len(best.Cases) + 1) / 2
	for chunk >= 1 && !expired() {
		removed := false
		for i := 0; i+chunk <= len(best.Cases) && len(best.Cases) > 1 && !expired(); {
			cand := append(append([]Case(nil), best.Cases[:i]...), best.Cases[i+chunk:]...)
			if len(cand) > 0 && try(cand) {
				removed = true
			} else {
				i += chunk
			}
		}
		if !removed || chunk == 1 {
			chunk /= 2
		}
	}
	for ci := 0; ci < len(best.Cases) && !expired(); ci++ {
		repl := func(nc Case) bool {
			cand := append([]Case(nil), best.Cases...)
			cand[ci] = nc
			return try(cand)
		}
		if len(best.Cases[ci].Spec.Prewarm) > 0 {
			d := cloneCase(best.Cases[ci])
			d.Spec.Prewarm = nil
			repl(d)
		}
		for t := len(best.Cases[ci].Spec.Tasks) - 1; t >= 0 && !expired(); t-- {
			if len(best.Cases[ci].Spec.Tasks) > 1 {
				repl(dropTask(best.Cases[ci], t))
			}
		}
		for t := 0; t < len(best.Cases[ci].Spec.Tasks) && !expired(); t++ {
			chunk := (len(best.Cases[ci].Spec.Tasks[t]) + 1) / 2
			for chunk >= 1 && !expired() {
				removed := false
				for i := 0; i+chunk <= len(best.Cases[ci].Spec.Tasks[t]) && !expired(); {
					if repl(dropOps(best.Cases[ci], t, i, i+chunk)) {
						removed = true
					} else {
						i += chunk
					}
				}
				if !removed || chunk == 1 {
					chunk /= 2
				}
			}
		}
	}
	for ci := 0; ci < len(best.Cases) && !expired(); ci++ {
		cand := append([]Case(nil), best.Cases...)
		cand[ci] = compactPool(best.Cases[ci])
		try(cand)
		shrinkPool(func() Case { return best.Cases[ci] }, func(nc Case) bool {
			cand := append([]Case(nil), best.Cases...)
			cand[ci] = nc
			return try(cand)
		}, expired)
	}
	for k := 0; k < 2; k++ {
		if ok, _, _ := tryCases(sp, best.Cases, v); !ok {
			fb := *v
			fb.Detail += " [note: minimised form was not stable; unminimised batch reported]"
			return &fb
		}
	}
	return best
}

// opRefs reports which pool indices an operation kind uses.
func opRefs(k string) (a, b, r, l bool) {
	switch k {
	case "cmp":
		return true, true, false, false
	case "cont":
		return true, false, true, false
	case "vstr":
		return true, false, false, false
	case "rstr":
		return false, false, true, false
	case "newv":
		return true, false, true, false
	case "newr":
		return true, true, false, false
	case "sort":
		return false, false, false, true
	}
	return false, false, false, false
}

// compactPool removes ecosystems, versions and ranges no remaining operation
// refers to, renumbering the operations. Out-of-range references stay out of
// range. The caller accepts the result only if the violation persists.
func compactPool(c Case) Case {
	d := cloneCase(c)
	sp := &d.Spec
	ne := len(sp.Ecos)
	usedE := make([]bool, ne)
	usedV := make([]map[int]bool, ne)
	usedR := make([]map[int]bool, ne)
	for e := range usedV {
		usedV[e], usedR[e] = map[int]bool{}, map[int]bool{}
	}
	each := func(f func(op *Op)) {
		for i := range sp.Prewarm {
			f(&sp.Prewarm[i])
		}
		for t := range sp.Tasks {
			for i := range sp.Tasks[t] {
				f(&sp.Tasks[t][i])
			}
		}
	}
	each(func(op *Op) {
		if op.K == "vers" || op.E < 0 || op.E >= ne {
			return
		}
		usedE[op.E] = true
		a, b, r, l := opRefs(op.K)
		if a {
			usedV[op.E][op.A] = true
		}
		if b {
			usedV[op.E][op.B] = true
		}
		if r {
			usedR[op.E][op.R] = true
		}
		// constructors observe their result against a few neighbours as well
		switch op.K {
		case "newv":
			for k := 1; k < 4; k++ {
				usedV[op.E][op.A+k] = true
			}
			usedR[op.E][op.R+1] = true
		case "newr":
			for k := 1; k < 3; k++ {
				usedV[op.E][op.A+k] = true
			}
		}
		if l {
			for _, i := range op.L {
				usedV[op.E][i] = true
			}
		}
	})
	const gone = 9999
	mapE := make([]int, ne)
	mapV := make([][]int, ne)
	mapR := make([][]int, ne)
	var ecos []EcoPool
	for e := 0; e < ne; e++ {
		if !usedE[e] {
			mapE[e] = -1
			continue
		}
		mapE[e] = len(ecos)
		ep := EcoPool{Name: sp.Ecos[e].Name, Versions: []string{}, Ranges: []string{}}
		mapV[e] = make([]int, len(sp.Ecos[e].Versions))
		for i, s := range sp.Ecos[e].Versions {
			if usedV[e][i] {
				mapV[e][i] = len(ep.Versions)
				ep.Versions = append(ep.Versions, s)
			} else {
				mapV[e][i] = gone
			}
		}
		mapR[e] = make([]int, len(sp.Ecos[e].Ranges))
		for i, s := range sp.Ecos[e].Ranges {
			if usedR[e][i] {
				mapR[e][i] = len(ep.Ranges)
				ep.Ranges = append(ep.Ranges, s)
			} else {
				mapR[e][i] = gone
			}
		}
		ecos = append(ecos, ep)
	}
	mv := func(e, i int) int {
		if i >= 0 && i < len(mapV[e]) {
			return mapV[e][i]
		}
		return gone
	}
	mr := func(e, i int) int {
		if i >= 0 && i < len(mapR[e]) {
			return mapR[e][i]
		}
		return gone
	}
	each(func(op *Op) {
		if op.K == "vers" || op.E < 0 || op.E >= ne {
			return
		}
		e := op.E
		op.A, op.B, op.R = mv(e, op.A), mv(e, op.B), mr(e, op.R)
		for k := range op.L {
			op.L[k] = mv(e, op.L[k])
		}
		op.E = mapE[e]
	})
	sp.Ecos = ecos
	return d
}

// dropPoolEntry removes version (isRange=false) or range i of ecosystem e,
// renumbering references; references to the removed entry go out of range.
func dropPoolEntry(c Case, e int, isRange bool, i int) Case {
	d := cloneCase(c)
	sp := &d.Spec
	const gone = 9999
	fix := func(x int) int {
		switch {
		case x == i:
			return gone
		case x > i && x < gone:
			return x - 1
		}
		return x
	}
	if isRange {
		sp.Ecos[e].Ranges = append(append([]string{}, sp.Ecos[e].Ranges[:i]...), sp.Ecos[e].Ranges[i+1:]...)
	} else {
		sp.Ecos[e].Versions = append(append([]string{}, sp.Ecos[e].Versions[:i]...), sp.Ecos[e].Versions[i+1:]...)
	}
	each := func(f func(op *Op)) {
		for k := range sp.Prewarm {
			f(&sp.Prewarm[k])
		}
		for t := range sp.Tasks {
			for k := range sp.Tasks[t] {
				f(&sp.Tasks[t][k])
			}
		}
	}
	each(func(op *Op) {
		if op.K == "vers" || op.E != e {
			return
		}
		if isRange {
			op.R = fix(op.R)
		} else {
			op.A, op.B = fix(op.A), fix(op.B)
			for k := range op.L {
				op.L[k] = fix(op.L[k])
			}
		}
	})
	return d
}

// dropEco removes ecosystem e entirely (operations on it become no-ops on a bad index).
func dropEco(c Case, e int) Case {
	d := cloneCase(c)
	sp := &d.Spec
	sp.Ecos = append(append([]EcoPool{}, sp.Ecos[:e]...), sp.Ecos[e+1:]...)
	fixOps := func(ops []Op) []Op {
		var out []Op
		for _, op := range ops {
			if op.K != "vers" {
				if op.E == e {
					continue
				}
				if op.E > e {
					op.E--
				}
			}
			out = append(out, op)
		}
		return out
	}
	sp.Prewarm = fixOps(sp.Prewarm)
	for t := range sp.Tasks {
		sp.Tasks[t] = fixOps(sp.Tasks[t])
	}
	// explicit schedules refer to operation indices; dropping operations here
	// would shift them, so only offer this reduction for non-explicit schedules
	return d
}

// shrinkPool tries to remove pool entries one at a time.
func shrinkPool(get func() Case, replace func(Case) bool, expired func() bool) {
	for e := len(get().Spec.Ecos) - 1; e >= 0 && !expired(); e-- {
		if len(get().Spec.Ecos) > 1 && get().Spec.Sched.Policy != "explicit" {
			if replace(dropEco(get(), e)) {
				continue
			}
		}
		for i := len(get().Spec.Ecos[e].Versions) - 1; i >= 0 && !expired(); i-- {
			replace(dropPoolEntry(get(), e, false, i))
		}
		for i := len(get().Spec.Ecos[e].Ranges) - 1; i >= 0 && !expired(); i-- {
			replace(dropPoolEntry(get(), e, true, i))
		}
	}
}
