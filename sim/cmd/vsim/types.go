package main

import "encoding/json"

// Mirrors of the harness JSON types (the driver is built without the tree
// under test, so it cannot import the harness package).

type Switch struct {
	Task  int32  `json:"t"`
	Op    int32  `json:"o"`
	Lstep uint32 `json:"l"`
	To    int32  `json:"to"`
	Kind  uint8  `json:"k"`
	Site  uint32 `json:"s"`
}

type Sched struct {
	Policy   string   `json:"policy"`
	Seed     uint64   `json:"seed"`
	Num      uint32   `json:"num,omitempty"`
	Den      uint32   `json:"den,omitempty"`
	D        int      `json:"d,omitempty"`
	EstSteps uint64   `json:"est,omitempty"`
	Affine   bool     `json:"affine,omitempty"`
	Hot      bool     `json:"hot,omitempty"`
	Explicit []Switch `json:"explicit,omitempty"`
}

type Op struct {
	K string `json:"k"`
	E int    `json:"e"`
	A int    `json:"a"`
	B int    `json:"b"`
	R int    `json:"r"`
	S string `json:"s,omitempty"`
	T string `json:"t,omitempty"`
	L []int  `json:"l,omitempty"`
	N int    `json:"n,omitempty"`
}

type EcoPool struct {
	Name     string   `json:"name"`
	Versions []string `json:"versions"`
	Ranges   []string `json:"ranges"`
}

type Spec struct {
	Seed    uint64          `json:"seed"`
	Tier    string          `json:"tier"`
	Index   int             `json:"index"`
	Ecos    []EcoPool       `json:"ecos"`
	Prewarm []Op            `json:"prewarm,omitempty"`
	Tasks   [][]Op          `json:"tasks"`
	Sched   Sched           `json:"sched"`
	Faults  json.RawMessage `json:"faults"`
	Flood   int             `json:"flood,omitempty"`
}

type Case struct {
	Spec Spec            `json:"spec"`
	Exp  json.RawMessage `json:"exp"`
}

type Batch struct {
	Seed  uint64 `json:"seed"`
	Tier  string `json:"tier"`
	Batch int    `json:"batch"`
	Cases []Case `json:"cases"`
}

type Mismatch struct {
	Class string `json:"class"`
	Task  int    `json:"task"`
	OpIdx int    `json:"op"`
	Op    *Op    `json:"opdef,omitempty"`
	What  string `json:"what"`
	Want  string `json:"want"`
	Got   string `json:"got"`
}

type RaceAttr struct {
	Task  int `json:"task"`
	OpIdx int `json:"op"`
	Count int `json:"count"`
}

type Stats struct {
	Steps           uint64
	Switches        uint64
	Preempts        uint64
	SameObjPreempts uint64
	OpBoundary      uint64
	LockContend     uint64
	MapPerms        uint64
	ClockReads      uint64
	ClockJumps      uint64
	PoolDrops       uint64
	PoolSteals      uint64
	PoolGets        uint64
	RandDraws       uint64
	GoSpawns        uint64
	SyncOps         uint64
	StarveGuards    uint64
	Naps            uint64
	ChanOps         uint64
	LeakedTasks     uint64
	Selects         uint64
	TimersFired     uint64
	TimersMade      uint64
	Survivors       uint64
	ForcedGCs       uint64
	HotNaps         uint64
	Fingerprint     uint64
	Truncated       bool
	Aborted         string
	AbortDetail     string
	MaxOpSteps      uint64
}

type RunResult struct {
	Index      int            `json:"index"`
	Seed       uint64         `json:"seed"`
	Policy     string         `json:"policy"`
	Stats      Stats          `json:"stats"`
	Mismatches []Mismatch     `json:"mismatches,omitempty"`
	RaceCount  int            `json:"race_count"`
	RaceAttr   []RaceAttr     `json:"race_attr,omitempty"`
	RaceText   string         `json:"race_text,omitempty"`
	EventHash  uint64         `json:"event_hash"`
	Ops        int            `json:"ops"`
	OpKinds    map[string]int `json:"op_kinds"`
	Switches   []Switch       `json:"switches,omitempty"`
	Tasks      int            `json:"tasks"`
	Results    [][]string     `json:"results,omitempty"`
	HarnessErr string         `json:"harness_err,omitempty"`
	WallNs     int64          `json:"wall_ns"`
	EcoNames   []string       `json:"eco_names"`
}

type BatchResult struct {
	Batch       int         `json:"batch"`
	Runs        []RunResult `json:"runs"`
	SiteHits    []uint32    `json:"site_hits,omitempty"`
	SitePreempt []uint32    `json:"site_preempt,omitempty"`
	PairFP      []uint64    `json:"pair_fp,omitempty"`
	Stopped     string      `json:"stopped,omitempty"`
}

type PoolObs struct {
	VStr []string `json:"vstr"`
	RStr []string `json:"rstr"`
	Cmp  string   `json:"cmp"`
	Cont string   `json:"cont"`
}

type Exp struct {
	Pre  []string   `json:"pre,omitempty"`
	Ops  [][]string `json:"ops"`
	Pool []PoolObs  `json:"pool"`
}
