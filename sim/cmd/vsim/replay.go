package main

import (
	"encoding/json"
	"fmt"
	"os"
	"path/filepath"
	"strings"
)

// ReplayFile is what a VIOLATION line points at.
type ReplayFile struct {
	Property  string      `json:"property"`
	Class     string      `json:"class"`
	Signature string      `json:"signature"`
	Engine    string      `json:"engine"`
	Detail    string      `json:"detail"`
	VerifSeed uint64      `json:"verif_seed"`
	Tier      string      `json:"tier"`
	Batch     int         `json:"batch"`
	RunIndex  int         `json:"run_index"`
	RepoHead  string      `json:"repo_head"`
	RepoDirty string      `json:"repo_dirty"`
	Race      *RaceReport `json:"race,omitempty"`
	Mismatch  *Mismatch   `json:"mismatch,omitempty"`
	Abort     string      `json:"abort,omitempty"`
	Shape     string      `json:"shape"`
	HowTo     string      `json:"how_to_replay"`
	Cases     []Case      `json:"cases"`
}

func shapeOf(cases []Case) string {
	if len(cases) == 0 {
		return "empty"
	}
	c := cases[len(cases)-1]
	ops := 0
	for _, t := range c.Spec.Tasks {
		ops += len(t)
	}
	sw := 0
	for _, s := range c.Spec.Sched.Explicit {
		if s.Kind == 0 {
			sw++
		}
	}
	return fmt.Sprintf("%d prior run(s) in the same process; failing run: %d task(s), %d operation(s), schedule=%s, %d explicit preemption(s)",
		len(cases)-1, len(c.Spec.Tasks), ops, c.Spec.Sched.Policy, sw)
}

func writeReplay(v *Violation, cfg checkCfg, b *Built) string {
	dir := filepath.Join(outDir(), "replays")
	os.MkdirAll(dir, 0o755)
	rf := ReplayFile{
		Property: propertyID, Class: v.Class, Signature: v.Sig, Engine: v.Engine, Detail: v.Detail,
		VerifSeed: cfg.seed, Tier: cfg.tier, Batch: v.Batch, RunIndex: v.RunIndex,
		RepoHead: b.RepoHead, RepoDirty: b.RepoDirty, Race: v.Race, Mismatch: v.Mismatch, Abort: v.Abort,
		Shape: shapeOf(v.Cases), HowTo: "cd /verif && ./bin/vsim replay <this file>", Cases: v.Cases,
	}
	name := fmt.Sprintf("%s-%s-%s-%d.json", propertyID, v.Class, shortHash(v.Sig), cfg.seed)
	path := filepath.Join(dir, name)
	jb, _ := json.MarshalIndent(&rf, "", " ")
	if err := os.WriteFile(path, jb, 0o644); err != nil {
		fail2("write replay: %v", err)
	}
	return path
}

// replay rebuilds from /repo's current tree and re-executes a replay file.
func replay(path string) int {
	var rf ReplayFile
	data, err := os.ReadFile(path)
	if err != nil {
		fail2("%v", err)
	}
	if err := json.Unmarshal(data, &rf); err != nil {
		fail2("%s: %v", path, err)
	}
	base := os.Getenv("VERIF_SCRATCH")
	if base == "" {
		base = os.TempDir()
	}
	scratch, err := os.MkdirTemp(base, "vsim-replay-")
	if err != nil {
		fail2("mktemp: %v", err)
	}
	defer os.RemoveAll(scratch)
	code := 2
	func() {
		defer func() {
			if r := recover(); r != nil {
				os.RemoveAll(scratch)
				panic(r)
			}
		}()
		b := build(scratch, false)
		sp := &simProc{b: b, nsites: len(b.Instr.Sites), workdir: filepath.Join(scratch, "work")}
		os.MkdirAll(sp.workdir, 0o755)
		v := &Violation{Class: rf.Class, Sig: rf.Signature, Engine: rf.Engine, Batch: rf.Batch, Cases: rf.Cases}
		ok, last, c := tryCases(sp, rf.Cases, v)
		if ok {
			fmt.Printf("VIOLATION property=%s replay=%s\n", propertyID, path)
			fmt.Printf("  reproduced: class=%s signature=%s\n  %s\n", c.Class, c.Sig, oneLine(c.Detail, 600))
			if last != nil {
				fmt.Printf("  steps=%d context_switches=%d event_hash=%x\n", last.Stats.Steps, last.Stats.Switches, last.EventHash)
			}
			if c.Race != nil {
				fmt.Println(indent(c.Race.Text, "  | "))
			}
			code = 1
			return
		}
		fmt.Printf("vsim: replay of %s did not reproduce %s/%s on the current tree\n", path, rf.Class, rf.Signature)
		code = 0
	}()
	return code
}

func indent(s, p string) string {
	return p + strings.ReplaceAll(s, "\n", "\n"+p)
}
