package main

import (
	"fmt"
	"os"
	"path/filepath"
	"sync"
	"time"
)

// selftestDeterminism proves that one seed is one execution: every run's
// event-log hash (each invoke/return with its step number and result, every
// context switch with its position, the step and switch totals) must be
// identical across repetitions and across process-level concurrency 1/4/16.
func selftestDeterminism(nseeds, nbatches int) int {
	t0 := time.Now()
	scratch, err := os.MkdirTemp(os.TempDir(), "vsim-det-")
	if err != nil {
		fail2("mktemp: %v", err)
	}
	defer os.RemoveAll(scratch)
	code := 2
	func() {
		defer func() {
			if r := recover(); r != nil {
				os.RemoveAll(scratch)
				panic(r)
			}
		}()
		b := build(scratch, false)
		sp := &simProc{b: b, nsites: len(b.Instr.Sites), workdir: filepath.Join(scratch, "work")}
		os.MkdirAll(sp.workdir, 0o755)
		classified := filepath.Join(scratch, "classified.json")
		po := runProc(5*time.Minute, goEnv(""), b.SimPlain, "classify", "-corpus", b.Corpus, "-out", classified)
		if po.err != nil {
			fail2("classification failed: %v", po.err)
		}
		type key struct {
			seed uint64
			idx  int
		}
		type job struct {
			seed uint64
			bn   int
			tag  string
		}
		// generation itself must be deterministic too: generate twice, compare bytes
		for s := 1; s <= nseeds; s++ {
			for bn := 0; bn < nbatches; bn++ {
				in := filepath.Join(sp.workdir, fmt.Sprintf("s%d_b%d.json", s, bn))
				in2 := in + ".again"
				tier := "quick"
				if s%2 == 0 {
					tier = "thorough"
				}
				for _, f := range []string{in, in2} {
					if msg := sp.genBatch(classified, uint64(s), tier, bn, f); msg != "" {
						fail2("%s", msg)
					}
				}
				a, _ := os.ReadFile(in)
				bb, _ := os.ReadFile(in2)
				if string(a) != string(bb) {
					fail2("generator is not deterministic for seed %d batch %d", s, bn)
				}
				os.Remove(in2)
			}
		}
		hashes := map[key]map[uint64]int{}
		var mu sync.Mutex
		procs := 0
		for _, conc := range []int{1, 4, 16} {
			var jobs []job
			for s := 1; s <= nseeds; s++ {
				for bn := 0; bn < nbatches; bn++ {
					for rep := 0; rep < 3; rep++ {
						jobs = append(jobs, job{uint64(s), bn, fmt.Sprintf("c%d_r%d", conc, rep)})
					}
				}
			}
			var wg sync.WaitGroup
			ch := make(chan job)
			for w := 0; w < conc; w++ {
				wg.Add(1)
				go func() {
					defer wg.Done()
					for j := range ch {
						in := filepath.Join(sp.workdir, fmt.Sprintf("s%d_b%d.json", j.seed, j.bn))
						out := filepath.Join(sp.workdir, fmt.Sprintf("o_s%d_b%d_%s.json", j.seed, j.bn, j.tag))
						br, po := sp.simBatch(in, out, false, false, 1)
						os.Remove(out)
						mu.Lock()
						procs++
						if br == nil {
							mu.Unlock()
							fail2("simulator process failed in determinism self-test: %v %s", po.err, tail(po.stderr, 2000))
						}
						for i := range br.Runs {
							k := key{j.seed, br.Runs[i].Index}
							if hashes[k] == nil {
								hashes[k] = map[uint64]int{}
							}
							hashes[k][br.Runs[i].EventHash]++
						}
						mu.Unlock()
					}
				}()
			}
			for _, j := range jobs {
				ch <- j
			}
			close(ch)
			wg.Wait()
		}
		bad := 0
		for k, m := range hashes {
			if len(m) != 1 {
				bad++
				if bad <= 5 {
					fmt.Printf("vsim: NONDETERMINISM seed=%d run=%d hashes=%v\n", k.seed, k.idx, m)
				}
			}
		}
		fmt.Printf("vsim: determinism self-test: %d seeds x %d batches, %d runs, each executed 9 times (3 repetitions x process concurrency 1/4/16, %d processes): %d runs with diverging event logs, %.0fs\n",
			nseeds, nbatches, len(hashes), procs, bad, time.Since(t0).Seconds())
		if bad > 0 {
			code = 2
			return
		}
		code = 0
	}()
	return code
}
