package main

import (
	"encoding/json"
	"os"
)

// KnownFinding identifies one recorded genuine defect by class and signature
// (for a race: the two call sites; for a mismatch: ecosystem/operation kind).
type KnownFinding struct {
	Property  string `json:"property"`
	Class     string `json:"class"`
	Signature string `json:"signature"`
	What      string `json:"what"`
	Replay    string `json:"replay,omitempty"`
}

type Known struct {
	Findings []KnownFinding `json:"findings"`
	Fixed    []string       `json:"fixed"`
}

func loadKnown(path string) *Known {
	k := &Known{}
	b, err := os.ReadFile(path)
	if err != nil {
		return k
	}
	if err := json.Unmarshal(b, k); err != nil {
		fail2("%s: %v", path, err)
	}
	return k
}

func (k *Known) match(v *Violation) *KnownFinding {
	for i := range k.Findings {
		f := &k.Findings[i]
		if f.Property == propertyID && f.Class == v.Class && f.Signature == v.Sig {
			return f
		}
	}
	return nil
}
