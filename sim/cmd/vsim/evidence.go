package main

import (
	"encoding/json"
	"fmt"
	"os"
	"path/filepath"
	"sort"
	"strings"
)

func writeEvidence(cfg checkCfg, b *Built, ag *agg, corpus map[string][3]int, simWall, wall float64, detChecked, detMismatch, nviol int, reported []map[string]any) {
	// site coverage per package
	type cov struct {
		Sites     int `json:"yield_sites"`
		Executed  int `json:"executed"`
		Preempted int `json:"preempted_at"`
	}
	perPkg := map[string]*cov{}
	totalExec, totalPre := 0, 0
	for _, s := range b.Instr.Sites {
		c := perPkg[s.Pkg]
		if c == nil {
			c = &cov{}
			perPkg[s.Pkg] = c
		}
		c.Sites++
		if s.ID < len(ag.siteHits) && ag.siteHits[s.ID] > 0 {
			c.Executed++
			totalExec++
		}
		if s.ID < len(ag.sitePre) && ag.sitePre[s.ID] > 0 {
			c.Preempted++
			totalPre++
		}
	}
	var neverFuncs []string
	{
		seen := map[string]bool{}
		for _, s := range b.Instr.Sites {
			if s.Kind == "entry" && s.ID < len(ag.siteHits) && ag.siteHits[s.ID] == 0 {
				k := s.Pkg + ":" + s.Func
				if !seen[k] {
					seen[k] = true
					neverFuncs = append(neverFuncs, k)
				}
			}
		}
		sort.Strings(neverFuncs)
	}
	hours := simWall / 3600
	perHour := func(n int) float64 {
		if hours <= 0 {
			return 0
		}
		return float64(n) / hours
	}
	faults := map[string]any{
		"preempt":                             ag.stats.Preempts,
		"same_object_preempt":                 ag.stats.SameObjPreempts,
		"op_boundary_yields":                  ag.stats.OpBoundary,
		"history_shift_runs":                  ag.runs - ag.coldRuns,
		"cold_first_runs":                     ag.coldRuns,
		"map_order":                           ag.stats.MapPerms,
		"clock_reads":                         ag.stats.ClockReads,
		"clock_jump":                          ag.stats.ClockJumps,
		"pool_get":                            ag.stats.PoolGets,
		"pool_drop":                           ag.stats.PoolDrops,
		"pool_steal":                          ag.stats.PoolSteals,
		"lock_contend":                        ag.stats.LockContend,
		"rand_draws":                          ag.stats.RandDraws,
		"library_go_spawns":                   ag.stats.GoSpawns,
		"sim_sync_operations":                 ag.stats.SyncOps,
		"starvation_guards":                   ag.stats.StarveGuards,
		"task_stall":                          ag.stats.Naps,
		"channel_operations":                  ag.stats.ChanOps,
		"select_statements":                   ag.stats.Selects,
		"timers_fired":                        ag.stats.TimersFired,
		"timers_and_deadlines_created":        ag.stats.TimersMade,
		"library_goroutines_kept_across_runs": ag.stats.Survivors,
		"forced_gc_with_finalizers_drained":   ag.stats.ForcedGCs,
		"leaked_library_goroutines":           ag.stats.LeakedTasks,
		"note":                                "kinds with 0 sites in the tree under test cannot fire; see seams_rewritten",
	}
	samples := []json.RawMessage{}
	samples = append(samples, ag.samples...)
	if len(samples) == 0 {
		samples = append(samples, json.RawMessage(`{"note":"no run completed"}`))
	}
	ev := map[string]any{
		"property_id": propertyID,
		"tier":        cfg.tier,
		"seed":        int64(cfg.seed),
		"level":       "exploration",
		"wall_s":      wall,
		"violations":  nviol,
		"coverage": map[string]any{
			"evaluations":         ag.runs,
			"distinct_nontrivial": len(ag.nontrivFP),
			"rule": "one evaluation = one simulated run: a seeded pool of shared Ecosystem/Version/VersionRange values, 2-8 client tasks with seeded programs of API calls, one seeded schedule deciding which task executes each statement of library code, all oracles evaluated. " +
				"distinct_nontrivial counts DISTINCT schedule fingerprints (hash of the sequence of (from-task, to-task, yield-site) over every context switch of the run) among runs in which at least one preemption landed while another task was in the middle of an operation on the same shared object; it is computed by set insertion in the driver.",
			"samples":                            samples,
			"exhaustive":                         false,
			"distinct_schedule_fingerprints":     len(ag.fingerprints),
			"distinct_preempt_resume_site_pairs": len(ag.pairFP),
			"operations_executed":                ag.ops,
			"operations_by_kind":                 ag.opKinds,
			"simulated_steps":                    ag.steps,
			"context_switches":                   ag.stats.Switches,
			"runs_by_policy":                     ag.policies,
			"runs_by_task_count":                 ag.tasksHist,
			"runs_per_ecosystem":                 ag.ecoRuns,
			"nontrivial_runs_per_ecosystem":      ag.ecoNontriv,
			"batches_fresh_processes":            ag.batches,
			"max_steps_in_one_operation":         ag.stats.MaxOpSteps,
			"faults_fired":                       faults,
			"yield_site_coverage": map[string]any{
				"sites_instrumented": len(b.Instr.Sites), "sites_executed": totalExec, "sites_preempted_at": totalPre, "per_package": perPkg,
				"functions_never_entered": append([]string{}, neverFuncs...),
			},
			"reverse_order_reference_check": map[string]any{
				"note":           "every spec is also evaluated in reverse order by a second uninstrumented sequential process; the two reference tables must agree (history independence, decided without the simulator)",
				"specs_compared": ag.refCompared,
			},
			"runs_stopped_at_simulator_capacity_limit": ag.harnessLimit,
			"race_detector_reports":                    ag.raceReports,
			"harness_race_reports":                     len(ag.harnessRaces),
			"determinism_spot_check":                   map[string]any{"runs_reexecuted": detChecked, "event_log_mismatches": detMismatch},
			"real_parallel_cross_check": map[string]any{
				"note":       "NOT simulation: same workloads with real goroutines at GOMAXPROCS=16 on the uninstrumented -race build, to catch blind spots of the simulator itself",
				"executions": ag.parRuns, "race_reports": ag.parRaces,
			},
			"rates": map[string]any{
				"sim_wall_s": simWall, "runs_per_hour": perHour(ag.runs), "seeds_per_hour": perHour(ag.runs),
				"steps_per_hour": perHour(int(ag.steps)), "workers": cfg.workers,
				"simulated_time": "the library has no timers or deadlines, so simulated wall-clock time is vacuous; the meaningful measure is simulated steps (statements of library code executed under the scheduler)",
			},
			"components": map[string]any{
				"real": []string{
					"every non-test file of pkg/univers, pkg/ecosystem/* and pkg/spec/vers from /repo's working tree (instrumented copy, line-preserving)",
					"Go runtime, race detector, regexp, strconv, strings, fmt, slices, unicode, time.Parse",
				},
				"simulated": []string{"caller threads (client tasks): which task executes the next statement is decided by the seeded scheduler"},
				"stubbed_if_used_by_the_tree": map[string]any{
					"sync -> simsync (Mutex, RWMutex, Once, WaitGroup, Cond, Map.Range order, virtual Pool)": ag.stats.SyncOps,
					"go statement -> simrt.Go": ag.stats.GoSpawns,
					"channel send/receive/close/range -> simrt virtual channels (select is left real)": ag.stats.ChanOps,
					"map range -> simrt.MapIter":                              ag.stats.MapPerms,
					"time.Now/Since/Until/Sleep -> simulated clock":           ag.stats.ClockReads,
					"math/rand top-level -> run PRNG":                         ag.stats.RandDraws,
					"std sync.Pool in race mode: every Put dropped (overlay)": "always on",
				},
				"not_run": []string{"cmd/ (CLI entry point; not covered by C19)"},
			},
			"seams_rewritten": b.Instr.Seams,
			"unseamed":        b.Instr.Unseamed,
			"corpus":          corpus,
			"fidelity_gate":   b.Fidelity,
			"toolchain":       map[string]any{"go": b.GoVersion, "goroot": b.GoRoot, "overlay": "sync/pool.go: race-mode Put always drops"},
			"tree":            map[string]any{"repo_head": b.RepoHead, "state": b.RepoDirty},
			"violations":      reported,
		},
		"assumptions": []string{
			"schedules, histories and inputs are sampled, not enumerated: a clean batch is evidence, not proof",
			"preemption is at statement granularity (a yield before every statement of library code and at every function entry)",
			"the race detector (ThreadSanitizer) has no false positives on code without unsafe; it sees a race only if both accesses execute in one run",
			"inputs come from the repository's own test tables and docs plus cheap mutations; code the corpus does not drive is not exercised (see yield_site_coverage)",
			"channel-based synchronisation inside the library is not virtualised (exit 2 via watchdog, never a VIOLATION)",
		},
	}
	dir := filepath.Join(outDir(), "evidence")
	os.MkdirAll(dir, 0o755)
	jb, err := json.MarshalIndent(ev, "", " ")
	if err != nil {
		fail2("evidence: %v", err)
	}
	if err := os.WriteFile(filepath.Join(dir, propertyID+".json"), append(jb, '\n'), 0o644); err != nil {
		fail2("evidence: %v", err)
	}
	_ = strings.Join
	fmt.Printf("vsim: evidence written to %s\n", filepath.Join(dir, propertyID+".json"))
}
