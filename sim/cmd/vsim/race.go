package main

import (
	"crypto/sha1"
	"encoding/hex"
	"regexp"
	"sort"
	"strings"
)

// RaceReport is one parsed ThreadSanitizer report.
type RaceReport struct {
	Accesses []RaceAccess `json:"accesses"`
	Library  bool         `json:"library"` // at least one access whose innermost non-std frame is library code (pkg/..., cmd/...)
	Sig      string       `json:"sig"`
	Text     string       `json:"text"`
}

type RaceAccess struct {
	Kind   string   `json:"kind"`  // read | write | atomic read ...
	Frame  string   `json:"frame"` // innermost library frame "func file:line"
	Frames []string `json:"frames,omitempty"`
	// Owner is who issued the access: the innermost frame that is not standard
	// library or runtime code is either library code ("lib") or simulator /
	// harness code ("sim"). A race both of whose accesses were issued by the
	// simulator's own code is a harness fault, whatever called into it.
	Owner string `json:"owner,omitempty"`
}

var (
	accessHdr = regexp.MustCompile(`^(Previous )?((?:atomic )?(?:[Rr]ead|[Ww]rite)) at 0x[0-9a-f]+ by `)
	frameLoc  = regexp.MustCompile(`^\s+(\S+):(\d+)(?: \+0x[0-9a-f]+)?$`)
)

// libRel maps an absolute file name inside a scratch copy to its path relative
// to the repository root when it is library code (pkg/... or cmd/...).
func libRel(file string) (string, bool) {
	for _, mark := range []string{"/inst/", "/plain/"} {
		if i := strings.Index(file, mark); i >= 0 {
			rel := file[i+len(mark):]
			if strings.HasPrefix(rel, "pkg/") || strings.HasPrefix(rel, "cmd/") {
				return rel, true
			}
			return rel, false
		}
	}
	return file, false
}

func parseRaceReports(text string) []RaceReport {
	var out []RaceReport
	blocks := strings.Split(text, "==================")
	for _, b := range blocks {
		if !strings.Contains(b, "WARNING: DATA RACE") {
			continue
		}
		rep := RaceReport{Text: strings.TrimSpace(b)}
		lines := strings.Split(b, "\n")
		var cur *RaceAccess
		var pendingFunc string
		inAccess := false
		for _, l := range lines {
			if m := accessHdr.FindStringSubmatch(l); m != nil {
				rep.Accesses = append(rep.Accesses, RaceAccess{Kind: strings.ToLower(m[2])})
				cur = &rep.Accesses[len(rep.Accesses)-1]
				inAccess = true
				continue
			}
			if strings.HasPrefix(l, "Goroutine ") || strings.HasPrefix(l, "Mutex ") || strings.HasPrefix(l, "Location ") {
				inAccess = false
				continue
			}
			if !inAccess || cur == nil {
				continue
			}
			if strings.TrimSpace(l) == "" {
				inAccess = false
				continue
			}
			if m := frameLoc.FindStringSubmatch(l); m != nil {
				rel, lib := libRel(m[1])
				fr := shortFunc(pendingFunc) + " " + rel + ":" + m[2]
				if cur.Owner == "" && rel != m[1] {
					// first frame inside the scratch copy
					if lib {
						cur.Owner = "lib"
						rep.Library = true
					} else {
						cur.Owner = "sim"
					}
				}
				if lib {
					cur.Frames = append(cur.Frames, fr)
					if cur.Frame == "" {
						cur.Frame = fr
					}
				}
				continue
			}
			pendingFunc = strings.TrimSpace(l)
		}
		var parts []string
		for _, a := range rep.Accesses {
			f := a.Frame
			if f == "" {
				f = "<no library frame>"
			}
			parts = append(parts, a.Kind+" "+f)
		}
		sort.Strings(parts)
		rep.Sig = strings.Join(parts, " <-> ")
		out = append(out, rep)
	}
	return out
}

func shortFunc(f string) string {
	f = strings.TrimSuffix(f, "()")
	if i := strings.LastIndex(f, "/"); i >= 0 {
		f = f[i+1:]
	}
	return f
}

func shortHash(s string) string {
	h := sha1.Sum([]byte(s))
	return hex.EncodeToString(h[:])[:10]
}
