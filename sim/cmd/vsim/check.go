package main

import (
	"bytes"
	"context"
	"encoding/json"
	"fmt"
	"os"
	"os/exec"
	"path/filepath"
	"sort"
	"strconv"
	"strings"
	"sync"
	"sync/atomic"
	"time"
)

const propertyID = "C19"

var batchSizes = [4]int{4, 10, 25, 50}

const sweepBase = 1_000_000_000

func batchRange(b int) (from, to int) {
	per := 0
	for _, s := range batchSizes {
		per += s
	}
	from = (b / 4) * per
	for k := 0; k < b%4; k++ {
		from += batchSizes[k]
	}
	return from, from + batchSizes[b%4]
}

type checkCfg struct {
	tier       string
	seed       uint64
	budgetS    float64
	workers    int
	minBatches int
	maxBatches int
	detBatches int // batches re-run for the determinism spot check
	parBatches int // batches also run with real goroutines (cross-check)
	minimiseS  float64
}

// Violation is one confirmed-or-candidate violation of C19.
type Violation struct {
	Class    string      `json:"class"`
	Sig      string      `json:"signature"`
	Detail   string      `json:"detail"`
	Engine   string      `json:"engine"` // sim | par
	Batch    int         `json:"batch"`
	RunIndex int         `json:"run_index"`
	RunPos   int         `json:"run_pos"` // position of the failing case in Cases
	Cases    []Case      `json:"cases"`   // batch prefix + failing run
	Race     *RaceReport `json:"race,omitempty"`
	Mismatch *Mismatch   `json:"mismatch,omitempty"`
	Abort    string      `json:"abort,omitempty"`
}

func (v *Violation) key() string { return v.Class + "|" + v.Sig }

type agg struct {
	mu           sync.Mutex
	runs         int
	ops          int
	steps        uint64
	stats        Stats
	opKinds      map[string]int
	policies     map[string]int
	ecoRuns      map[string]int
	ecoNontriv   map[string]int
	fingerprints map[uint64]struct{}
	nontrivFP    map[uint64]struct{}
	pairFP       map[uint64]struct{}
	siteHits     []uint64
	sitePre      []uint64
	samples      []json.RawMessage
	violations   map[string]*Violation
	vorder       []string
	harnessRaces []string
	batches      int
	simWallNs    int64
	tasksHist    map[int]int
	raceReports  int
	coldRuns     int
	eventHashes  map[int]uint64 // run index -> event hash (first execution)
	parRuns      int
	parRaces     int
	refCompared  int

	harnessLimit    int
	harnessLimitWhy []string
}

func newAgg(nsites int) *agg {
	return &agg{
		opKinds: map[string]int{}, policies: map[string]int{}, ecoRuns: map[string]int{}, ecoNontriv: map[string]int{},
		fingerprints: map[uint64]struct{}{}, nontrivFP: map[uint64]struct{}{}, pairFP: map[uint64]struct{}{},
		siteHits: make([]uint64, nsites+1), sitePre: make([]uint64, nsites+1),
		violations: map[string]*Violation{}, tasksHist: map[int]int{}, eventHashes: map[int]uint64{},
	}
}

func (a *agg) addViolation(v *Violation) {
	if _, ok := a.violations[v.key()]; ok {
		return
	}
	a.violations[v.key()] = v
	a.vorder = append(a.vorder, v.key())
}

type simProc struct {
	b       *Built
	nsites  int
	workdir string
}

func simEnv(b *Built, racelog string, procs int) []string {
	env := []string{}
	for _, kv := range os.Environ() {
		k := kv[:strings.IndexByte(kv+"=", '=')]
		switch k {
		case "GOMAXPROCS", "GORACE", "GODEBUG", "GOTRACEBACK", "TZ", "VSIM_PROCS", "VSIM_HSEED", "VSIM_MODE":
			continue
		}
		env = append(env, kv)
	}
	env = append(env, fmt.Sprintf("GOMAXPROCS=%d", procs), "GODEBUG=asyncpreemptoff=1", "GOTRACEBACK=all",
		"GORACE=halt_on_error=0 history_size=5 atexit_sleep_ms=0 log_path="+racelog)
	return env
}

type procOut struct {
	stderr string
	err    error
	timed  bool
}

func runProc(timeout time.Duration, env []string, bin string, args ...string) procOut {
	ctx, cancel := context.WithTimeout(context.Background(), timeout)
	defer cancel()
	cmd := exec.CommandContext(ctx, bin, args...)
	cmd.Env = env
	var eb bytes.Buffer
	cmd.Stderr = &eb
	cmd.Stdout = &eb
	err := cmd.Run()
	return procOut{stderr: eb.String(), err: err, timed: ctx.Err() == context.DeadlineExceeded}
}

// genBatch asks the plain build for the specs and reference tables of batch bn.
func (sp *simProc) genBatch(classified string, seed uint64, tier string, bn int, out string) (failure string) {
	from, to := batchRange(bn)
	sweep := bn%16 == 7
	if sweep {
		// sweep batches live in an index space of their own, so that consecutive
		// sweep batches cover consecutive preemption points of one base spec
		n := bn / 16
		from, to = sweepBase+n*50, sweepBase+n*50+50
	}
	args := []string{"gen", "-corpus", classified, "-seed", strconv.FormatUint(seed, 10),
		"-tier", tier, "-from", strconv.Itoa(from), "-to", strconv.Itoa(to), "-batch", strconv.Itoa(bn), "-out", out}
	if sp.b.Instr != nil && sp.b.Instr.Seams["gc_lifetime"] > 0 {
		args = append(args, "-lifetimes")
	}
	if sweep {
		args = append(args, "-sweep")
	}
	if bn%16 == 15 {
		// soak batch: 50 runs in one process, all on one ecosystem
		// every third soak batch is a VERS soak (index 20 of 21), the others
		// walk through the ecosystems
		n := bn / 16
		if n%3 == 2 {
			args = append(args, "-soak", "20")
		} else {
			args = append(args, "-soak", strconv.Itoa((n-n/3)%20))
		}
	}
	po := runProc(5*time.Minute, goEnv(""), sp.b.SimPlain, args...)
	if po.err != nil {
		return fmt.Sprintf("reference generator failed on batch %d: %v\n%s", bn, po.err, tail(po.stderr, 4000))
	}
	return ""
}

// headTail keeps the first and the last n/2 bytes of s.
func headTail(s string, n int) string {
	if len(s) <= n {
		return s
	}
	return s[:n/2] + "\n...\n" + s[len(s)-n/2:]
}

func tail(s string, n int) string {
	if len(s) > n {
		return "..." + s[len(s)-n:]
	}
	return s
}

// refBatch recomputes the reference tables of the cases in file `in`.
func (sp *simProc) refBatch(in, out string) {
	po := runProc(5*time.Minute, goEnv(""), sp.b.SimPlain, "ref", "-in", in, "-out", out)
	if po.err != nil {
		fail2("reference evaluator failed: %v\n%s", po.err, tail(po.stderr, 4000))
	}
}

// simBatch executes a batch file under the simulator (or with real goroutines
// when par is set) in one fresh process.
func (sp *simProc) simBatch(in, out string, keep, par bool, reps int) (*BatchResult, procOut) {
	racelog := out + ".race"
	bin, mode, procs := sp.b.SimInst, "run", 1
	if par {
		bin, mode, procs = sp.b.SimPar, "par", 16
	}
	args := []string{mode, "-in", in, "-out", out, "-sites", strconv.Itoa(sp.nsites), "-racelog", racelog}
	if keep {
		args = append(args, "-keep")
	}
	if sp.b.Instr != nil && sp.b.Instr.Seams["gc_lifetime"] > 0 {
		args = append(args, "-lifetimes")
	}
	if par {
		args = append(args, "-reps", strconv.Itoa(reps))
	}
	os.Remove(out)
	limit := 150 * time.Second
	if par {
		limit = 90 * time.Second
	}
	env := simEnv(sp.b, racelog, procs)
	if !par {
		// the process environment is a fault dimension too: the simulator process
		// runs in a time zone far from the reference process's (a function of the
		// batch number, so that minimisation and replay see the same one)
		var hdr struct {
			Batch int `json:"batch"`
		}
		if data, err := os.ReadFile(in); err == nil {
			json.Unmarshal(data, &hdr)
		}
		// (several of them switch to summer time at local midnight, so that some
		// calendar days have no 00:00 there)
		zones := []string{"Pacific/Kiritimati", "America/Santiago", "America/Los_Angeles", "America/Sao_Paulo", "Asia/Kathmandu", "America/Havana", "UTC", "Atlantic/Azores", "Pacific/Pago_Pago", "America/Asuncion", "Europe/Berlin"}
		env = append(env, "TZ="+zones[((hdr.Batch%len(zones))+len(zones))%len(zones)])
		// goroutines the library starts outside a run (package initialisation)
		// become parked tasks in this process
		env = append(env, "VSIM_MODE=run")
		// seeds handed out by the maphash seam: fixed per batch number
		env = append(env, fmt.Sprintf("VSIM_HSEED=%d", hdr.Batch+1))
	}
	if !par && sp.b.Instr != nil && sp.b.Instr.Seams["nproc"] > 0 {
		// what the library is told about the processor count varies from batch
		// file to batch file (the simulator itself always runs on one)
		// (a function of the batch number recorded in the file, so that
		// minimisation and replay see the same value)
		var hdr struct {
			Batch int `json:"batch"`
		}
		if data, err := os.ReadFile(in); err == nil {
			json.Unmarshal(data, &hdr)
		}
		env = append(env, fmt.Sprintf("VSIM_PROCS=%d", []int{1, 2, 4, 16, 3, 8}[((hdr.Batch%6)+6)%6]))
	}
	po := runProc(limit, env, bin, args...)
	defer func() {
		ms, _ := filepath.Glob(racelog + ".*")
		for _, m := range ms {
			os.Remove(m)
		}
	}()
	if po.timed {
		return nil, po
	}
	var br BatchResult
	data, err := os.ReadFile(out)
	if err != nil {
		if po.err == nil {
			po.err = err
		}
		return nil, po
	}
	if err := json.Unmarshal(data, &br); err != nil {
		po.err = err
		return nil, po
	}
	return &br, po
}

func readBatch(path string) *Batch {
	var b Batch
	data, err := os.ReadFile(path)
	if err != nil {
		fail2("%v", err)
	}
	if err := json.Unmarshal(data, &b); err != nil {
		fail2("%s: %v", path, err)
	}
	return &b
}

func writeBatch(path string, b *Batch) {
	data, _ := json.Marshal(b)
	if err := os.WriteFile(path, data, 0o644); err != nil {
		fail2("%v", err)
	}
}

// refReverse evaluates the cases of file `in` in reverse order in a fresh
// uninstrumented process.
func (sp *simProc) refReverse(in, out string) (failure string) {
	env := goEnv("")
	if sp.b.Instr != nil && sp.b.Instr.Seams["gc_lifetime"] > 0 {
		// collect as often as possible in this process: lifetime-dependent state
		// (cleanups, weak pointers) then differs from the forward evaluation
		env = append(env, "GOGC=1")
	}
	po := runProc(5*time.Minute, env, sp.b.SimPlain, "ref", "-reverse", "-in", in, "-out", out)
	if po.err != nil {
		return fmt.Sprintf("reverse-order reference evaluator failed: %v\n%s", po.err, tail(po.stderr, 4000))
	}
	return ""
}

func ecoOfOp(c *Case, op *Op) string {
	if op.K == "vers" {
		return "vers"
	}
	if op.E >= 0 && op.E < len(c.Spec.Ecos) {
		return c.Spec.Ecos[op.E].Name
	}
	return "?"
}

// compareRefs compares two reference tables of the same cases computed by two
// uninstrumented processes after different call histories (forward / reverse
// order). Any difference is history dependence, decided without the simulator.
func compareRefs(fw, rv *Batch) []*Violation {
	var out []*Violation
	seen := map[string]bool{}
	for ci := range fw.Cases {
		if ci >= len(rv.Cases) {
			break
		}
		var a, b Exp
		if json.Unmarshal(fw.Cases[ci].Exp, &a) != nil || json.Unmarshal(rv.Cases[ci].Exp, &b) != nil {
			continue
		}
		c := &fw.Cases[ci]
		mk := func(sig, detail string) {
			v := &Violation{Class: "history-dependence", Engine: "ref", Batch: fw.Batch, RunIndex: c.Spec.Index, RunPos: ci,
				Cases: append([]Case(nil), fw.Cases...), Sig: sig, Detail: detail}
			if !seen[v.key()] {
				seen[v.key()] = true
				out = append(out, v)
			}
		}
		for t := range a.Ops {
			for i := range a.Ops[t] {
				if t < len(b.Ops) && i < len(b.Ops[t]) && a.Ops[t][i] != b.Ops[t][i] {
					op := &c.Spec.Tasks[t][i]
					ob, _ := json.Marshal(op)
					mk(ecoOfOp(c, op)+"/"+op.K, fmt.Sprintf("the same operation on freshly parsed values gives %q when the process evaluates the workload in forward order and %q in reverse order (two uninstrumented sequential processes) op=%s", a.Ops[t][i], b.Ops[t][i], ob))
				}
			}
		}
		for i := range a.Pre {
			if i < len(b.Pre) && a.Pre[i] != b.Pre[i] {
				op := &c.Spec.Prewarm[i]
				mk(ecoOfOp(c, op)+"/"+op.K, fmt.Sprintf("pre-warm operation: forward %q reverse %q", a.Pre[i], b.Pre[i]))
			}
		}
		for e := range a.Pool {
			if e < len(b.Pool) {
				pa, _ := json.Marshal(a.Pool[e])
				pb, _ := json.Marshal(b.Pool[e])
				if string(pa) != string(pb) {
					mk(c.Spec.Ecos[e].Name+"/pool", fmt.Sprintf("observation of freshly parsed pool values differs between forward and reverse evaluation order: %s vs %s", oneLine(string(pa), 300), oneLine(string(pb), 300)))
				}
			}
		}
	}
	return out
}

// violationsOf extracts candidate violations from one batch result.
func violationsOf(b *Batch, br *BatchResult, engine string, harnessRaces *[]string) []*Violation {
	var out []*Violation
	pos := map[int]int{}
	for i := range b.Cases {
		pos[b.Cases[i].Spec.Index] = i
	}
	for ri := range br.Runs {
		r := &br.Runs[ri]
		p, ok := pos[r.Index]
		if !ok {
			continue
		}
		mk := func() *Violation {
			return &Violation{Engine: engine, Batch: br.Batch, RunIndex: r.Index, RunPos: p, Cases: append([]Case(nil), b.Cases[:p+1]...)}
		}
		seen := map[string]bool{}
		for mi := range r.Mismatches {
			m := &r.Mismatches[mi]
			v := mk()
			v.Class = m.Class
			kind, eco := "pool", ""
			if m.Op != nil {
				kind = m.Op.K
				if m.Op.K != "vers" && m.Op.E < len(b.Cases[p].Spec.Ecos) {
					eco = b.Cases[p].Spec.Ecos[m.Op.E].Name
				} else if m.Op.K == "vers" {
					eco = "vers"
				}
			} else {
				// pool observation: "<what>: <eco> ..."
				if i := strings.Index(m.What, ": "); i >= 0 {
					rest := m.What[i+2:]
					eco = strings.SplitN(rest, " ", 2)[0]
				}
			}
			v.Sig = eco + "/" + kind
			if seen[v.key()] {
				continue
			}
			seen[v.key()] = true
			v.Mismatch = m
			v.Detail = fmt.Sprintf("%s: want %q got %q", m.What, m.Want, m.Got)
			if m.Op != nil {
				ob, _ := json.Marshal(m.Op)
				v.Detail += " op=" + string(ob)
			}
			out = append(out, v)
		}
		if r.RaceCount > 0 {
			reps := parseRaceReports(r.RaceText)
			if len(reps) == 0 {
				fail2("race detector counted %d reports in run %d but none could be parsed:\n%s", r.RaceCount, r.Index, tail(r.RaceText, 3000))
			}
			for i := range reps {
				rep := reps[i]
				if !rep.Library {
					*harnessRaces = append(*harnessRaces, rep.Text)
					continue
				}
				v := mk()
				v.Class = "data-race"
				v.Sig = rep.Sig
				v.Race = &rep
				v.Detail = rep.Sig
				out = append(out, v)
			}
		}
		if r.Stats.Aborted == "deadlock" || r.Stats.Aborted == "no-progress" {
			v := mk()
			v.Class = r.Stats.Aborted
			v.Abort = r.Stats.AbortDetail
			v.Sig = strings.Join(r.EcoNames, "+")
			v.Detail = r.Stats.AbortDetail
			out = append(out, v)
		}
	}
	return out
}

func (a *agg) addBatch(b *Batch, br *BatchResult, keepSamples int) {
	a.mu.Lock()
	defer a.mu.Unlock()
	a.batches++
	for i := range br.Runs {
		r := &br.Runs[i]
		a.runs++
		if i == 0 {
			a.coldRuns++
		}
		a.ops += r.Ops
		a.steps += r.Stats.Steps
		a.simWallNs += r.WallNs
		a.tasksHist[r.Tasks]++
		a.policies[r.Policy]++
		for k, n := range r.OpKinds {
			a.opKinds[k] += n
		}
		s := &r.Stats
		t := &a.stats
		t.Switches += s.Switches
		t.Preempts += s.Preempts
		t.SameObjPreempts += s.SameObjPreempts
		t.OpBoundary += s.OpBoundary
		t.LockContend += s.LockContend
		t.MapPerms += s.MapPerms
		t.ClockReads += s.ClockReads
		t.ClockJumps += s.ClockJumps
		t.PoolDrops += s.PoolDrops
		t.PoolSteals += s.PoolSteals
		t.PoolGets += s.PoolGets
		t.RandDraws += s.RandDraws
		t.GoSpawns += s.GoSpawns
		t.SyncOps += s.SyncOps
		t.StarveGuards += s.StarveGuards
		t.Naps += s.Naps
		t.ChanOps += s.ChanOps
		t.LeakedTasks += s.LeakedTasks
		t.Selects += s.Selects
		t.TimersFired += s.TimersFired
		t.TimersMade += s.TimersMade
		t.Survivors += s.Survivors
		t.ForcedGCs += s.ForcedGCs
		t.HotNaps += s.HotNaps
		if s.MaxOpSteps > t.MaxOpSteps {
			t.MaxOpSteps = s.MaxOpSteps
		}
		a.raceReports += r.RaceCount
		if s.Aborted == "harness-limit" {
			a.harnessLimit++
			if len(a.harnessLimitWhy) < 3 {
				a.harnessLimitWhy = append(a.harnessLimitWhy, s.AbortDetail)
			}
		}
		a.fingerprints[s.Fingerprint] = struct{}{}
		nontriv := s.SameObjPreempts > 0
		if nontriv {
			a.nontrivFP[s.Fingerprint] = struct{}{}
		}
		for _, n := range r.EcoNames {
			a.ecoRuns[n]++
			if nontriv {
				a.ecoNontriv[n]++
			}
		}
		a.eventHashes[r.Index] = r.EventHash
	}
	for _, h := range br.PairFP {
		if len(a.pairFP) < 2_000_000 {
			a.pairFP[h] = struct{}{}
		}
	}
	for i, h := range br.SiteHits {
		if i < len(a.siteHits) {
			a.siteHits[i] += uint64(h)
		}
	}
	for i, h := range br.SitePreempt {
		if i < len(a.sitePre) {
			a.sitePre[i] += uint64(h)
		}
	}
}

func check(cfg checkCfg) int {
	t0 := time.Now()
	base := os.Getenv("VERIF_SCRATCH")
	if base == "" {
		base = os.TempDir()
	}
	removeStale(base)
	scratch, err := os.MkdirTemp(base, "vsim-")
	if err != nil {
		fail2("mktemp: %v", err)
	}
	defer os.RemoveAll(scratch)
	code := 2
	func() {
		defer func() {
			if r := recover(); r != nil {
				os.RemoveAll(scratch)
				panic(r)
			}
		}()
		code = checkIn(cfg, scratch, t0)
	}()
	return code
}

func checkIn(cfg checkCfg, scratch string, t0 time.Time) int {
	fmt.Printf("vsim: property=%s tier=%s VERIF_SEED=%d\n", propertyID, cfg.tier, cfg.seed)
	fidCh := make(chan string, 1)
	b := build(scratch, false)
	go func() {
		defer func() {
			if r := recover(); r != nil {
				if e, ok := r.(exit2); ok {
					fidCh <- "FAIL: " + e.msg
					return
				}
				fidCh <- fmt.Sprintf("FAIL: %v", r)
			}
		}()
		fidCh <- fidelityGate(b, goEnv(b.GoRoot))
	}()
	nsites := len(b.Instr.Sites)
	fmt.Printf("vsim: built %s (%s) from %s [%s]: %d files, %d functions, %d yield sites, seams=%v, %.1fs\n",
		b.GoVersion, filepath.Base(b.GoRoot), repoDir(), b.RepoDirty, b.Instr.Files, b.Instr.Funcs, nsites, b.Instr.Seams, b.BuildS)
	for _, u := range b.Instr.Unseamed {
		fmt.Println("vsim: unseamed construct:", u)
	}
	sp := &simProc{b: b, nsites: nsites, workdir: filepath.Join(scratch, "work")}
	os.MkdirAll(sp.workdir, 0o755)
	classified := filepath.Join(scratch, "classified.json")
	summary := filepath.Join(scratch, "summary.json")
	po := runProc(5*time.Minute, goEnv(""), b.SimPlain, "classify", "-corpus", b.Corpus, "-out", classified, "-summary", summary)
	if po.err != nil {
		fail2("corpus classification failed: %v\n%s", po.err, tail(po.stderr, 4000))
	}
	var corpusSummary map[string][3]int
	if sb, err := os.ReadFile(summary); err == nil {
		json.Unmarshal(sb, &corpusSummary)
	}

	ag := newAgg(nsites)
	var next int64 = -1
	deadline := t0.Add(time.Duration(cfg.budgetS * float64(time.Second)))
	simStart := time.Now()
	var wg sync.WaitGroup
	var failMu sync.Mutex
	var failMsg, softFail string
	setFail := func(f string, a ...any) {
		failMu.Lock()
		if failMsg == "" {
			failMsg = fmt.Sprintf(f, a...)
		}
		failMu.Unlock()
	}
	setSoftFail := func(f string, a ...any) {
		failMu.Lock()
		if softFail == "" {
			softFail = fmt.Sprintf(f, a...)
		}
		failMu.Unlock()
	}
	detKeep := map[int]*Batch{}
	var detMu sync.Mutex
	for w := 0; w < cfg.workers; w++ {
		wg.Add(1)
		go func(w int) {
			defer wg.Done()
			defer func() {
				if r := recover(); r != nil {
					if e, ok := r.(exit2); ok {
						setFail("%s", e.msg)
						return
					}
					setFail("worker panic: %v", r)
				}
			}()
			for {
				bn := int(atomic.AddInt64(&next, 1))
				if bn >= cfg.maxBatches {
					return
				}
				if bn >= cfg.minBatches && time.Now().After(deadline) {
					return
				}
				failMu.Lock()
				bad := failMsg != "" || softFail != ""
				failMu.Unlock()
				if bad {
					return
				}
				in := filepath.Join(sp.workdir, fmt.Sprintf("b%d.json", bn))
				out := filepath.Join(sp.workdir, fmt.Sprintf("r%d.json", bn))
				if msg := sp.genBatch(classified, cfg.seed, cfg.tier, bn, in); msg != "" {
					// the uninstrumented reference process died (a crash of the
					// library itself, e.g. a fatal "concurrent map writes" in a
					// goroutine it started): undecidable on its own, but it does
					// not take back what the simulator already found
					setSoftFail("%s", msg)
					return
				}
				bt := readBatch(in)
				{
					rout := filepath.Join(sp.workdir, fmt.Sprintf("rb%d.json", bn))
					if msg := sp.refReverse(in, rout); msg != "" {
						// as for the forward generator: undecidable on its own, but
						// the batch is still simulated
						setSoftFail("%s", msg)
					} else {
						rv := readBatch(rout)
						os.Remove(rout)
						hv := compareRefs(bt, rv)
						ag.mu.Lock()
						ag.refCompared += len(bt.Cases)
						for _, v := range hv {
							ag.addViolation(v)
						}
						ag.mu.Unlock()
					}
				}
				br, po := sp.simBatch(in, out, false, false, 1)
				if br == nil {
					if po.timed {
						setFail("watchdog: simulator process for batch %d made no progress within the wall-clock limit (a construct the simulator does not virtualise, e.g. a channel wait?)\n%s", bn, tail(po.stderr, 3000))
					} else {
						setFail("simulator process for batch %d failed: %v\n%s", bn, po.err, tail(po.stderr, 6000))
					}
					return
				}
				for i := range br.Runs {
					if br.Runs[i].HarnessErr != "" {
						setFail("harness error in run %d: %s", br.Runs[i].Index, br.Runs[i].HarnessErr)
						return
					}
				}
				ag.addBatch(bt, br, 0)
				var hr []string
				vs := violationsOf(bt, br, "sim", &hr)
				ag.mu.Lock()
				for _, v := range vs {
					ag.addViolation(v)
				}
				ag.harnessRaces = append(ag.harnessRaces, hr...)
				if len(ag.samples) < 3 && len(bt.Cases) > 0 && len(br.Runs) > 0 {
					ag.samples = append(ag.samples, sampleOf(&bt.Cases[0], &br.Runs[0]))
				}
				ag.mu.Unlock()
				detMu.Lock()
				if bn < cfg.detBatches || bn < cfg.parBatches {
					detKeep[bn] = bt
				}
				detMu.Unlock()
				if !(bn < cfg.detBatches || bn < cfg.parBatches) {
					os.Remove(in)
				}
				os.Remove(out)
			}
		}(w)
	}
	wg.Wait()
	if failMsg != "" {
		fail2("%s", failMsg)
	}
	if softFail != "" {
		if len(ag.violations) == 0 {
			fail2("%s", softFail)
		}
		fmt.Println("vsim: note:", oneLine(softFail, 400))
	}
	simWall := time.Since(simStart).Seconds()
	fmt.Printf("vsim: simulated %d runs in %d batches (%d ops, %d steps, %d context switches, %d same-object preemptions) in %.1fs wall on %d workers\n",
		ag.runs, ag.batches, ag.ops, ag.steps, ag.stats.Switches, ag.stats.SameObjPreempts, simWall, cfg.workers)

	// ---- determinism spot check: same batches again, event hashes must agree ----
	detChecked, detMismatch := 0, []string{}
	{
		var dwg sync.WaitGroup
		var dmu sync.Mutex
		sem := make(chan struct{}, cfg.workers)
		for bn := 0; bn < cfg.detBatches && bn < ag.batches; bn++ {
			if _, ok := detKeep[bn]; !ok {
				continue
			}
			for rep := 0; rep < 2; rep++ {
				dwg.Add(1)
				sem <- struct{}{}
				go func(bn, rep int) {
					defer dwg.Done()
					defer func() { <-sem }()
					in := filepath.Join(sp.workdir, fmt.Sprintf("b%d.json", bn))
					out := filepath.Join(sp.workdir, fmt.Sprintf("d%d_%d.json", bn, rep))
					br, po := sp.simBatch(in, out, false, false, 1)
					os.Remove(out)
					dmu.Lock()
					defer dmu.Unlock()
					if br == nil {
						detMismatch = append(detMismatch, fmt.Sprintf("batch %d: re-run failed: %v %s", bn, po.err, tail(po.stderr, 500)))
						return
					}
					for i := range br.Runs {
						detChecked++
						if h, ok := ag.eventHashes[br.Runs[i].Index]; ok && h != br.Runs[i].EventHash {
							detMismatch = append(detMismatch, fmt.Sprintf("run %d: event-log hash %x vs %x", br.Runs[i].Index, h, br.Runs[i].EventHash))
						}
					}
				}(bn, rep)
			}
		}
		dwg.Wait()
	}
	lifetimes := b.Instr.Seams["gc_lifetime"] > 0
	if len(detMismatch) > 0 && b.Instr.Seams["nondet_selfseed"] > 0 && !lifetimes {
		// a zero maphash.Hash draws its seed from the runtime: the layout of
		// whatever it indexes differs from process to process
		fmt.Printf("vsim: note: %d re-executed runs had a different event log; tolerated because the tree uses self-seeding maphash.Hash values (a random seed per process that the simulator does not control)\n", len(detMismatch))
	} else if len(detMismatch) > 0 && lifetimes {
		// The tree uses finalizers / cleanups / weak pointers / unique handles: what
		// the collector has or has not yet freed is outside the simulator's control,
		// so step counts may differ between two executions of one seed. Results are
		// still checked against the reference in every execution.
		fmt.Printf("vsim: note: %d re-executed runs had a different event log; tolerated because the tree's behaviour depends on garbage-collection timing (gc_lifetime seam)\n", len(detMismatch))
	} else if len(detMismatch) > 0 && len(ag.violations) == 0 {
		fail2("determinism self-check failed (harness fault, or the tree under test consults an unseamed source of nondeterminism): %s", strings.Join(detMismatch[:min(5, len(detMismatch))], "; "))
	}
	fmt.Printf("vsim: determinism spot check: %d re-executed runs, %d event-log mismatches\n", detChecked, len(detMismatch))

	// ---- real-parallel cross-check (NOT simulation; labelled as such) ----
	for bn := 0; bn < cfg.parBatches && bn < ag.batches; bn++ {
		bt, ok := detKeep[bn]
		if !ok {
			continue
		}
		in := filepath.Join(sp.workdir, fmt.Sprintf("b%d.json", bn))
		out := filepath.Join(sp.workdir, fmt.Sprintf("p%d.json", bn))
		reps := 3
		br, po := sp.simBatch(in, out, false, true, reps)
		os.Remove(out)
		if br == nil {
			if strings.Contains(po.stderr, "fatal error: concurrent map") {
				v := &Violation{Class: "data-race", Engine: "par", Batch: bn, Cases: bt.Cases, RunPos: len(bt.Cases) - 1,
					Sig: "runtime fatal error: concurrent map access " + firstLibFrame(po.stderr), Detail: tail(po.stderr, 3000)}
				ag.addViolation(v)
				continue
			}
			if strings.Contains(po.stderr, "all goroutines are asleep - deadlock") {
				v := &Violation{Class: "deadlock", Engine: "par", Batch: bn, Cases: bt.Cases, RunPos: len(bt.Cases) - 1,
					Sig: "runtime: all goroutines are asleep " + firstLibFrame(po.stderr), Detail: tail(po.stderr, 3000)}
				ag.addViolation(v)
				continue
			}
			if len(ag.violations) > 0 {
				fmt.Printf("vsim: real-parallel cross-check process for batch %d did not finish (%v); the simulator already reported violations, continuing\n", bn, po.err)
				break
			}
			fail2("real-parallel cross-check process for batch %d failed or hung (timed out=%v): %v\n%s", bn, po.timed, po.err, tail(po.stderr, 4000))
		}
		var hr []string
		vs := violationsOf(bt, br, "par", &hr)
		ag.parRuns += len(br.Runs)
		for _, v := range vs {
			if v.Class == "data-race" {
				ag.parRaces++
			}
			ag.addViolation(v)
		}
		ag.harnessRaces = append(ag.harnessRaces, hr...)
	}
	if cfg.parBatches > 0 {
		fmt.Printf("vsim: real-parallel cross-check (not simulation): %d executions with real goroutines at GOMAXPROCS=16, %d race reports\n", ag.parRuns, ag.parRaces)
	}

	if len(ag.harnessRaces) > 0 {
		fail2("the race detector reported %d race(s) with no library frame (harness fault, not a violation):\n%s", len(ag.harnessRaces), headTail(ag.harnessRaces[0], 3000))
	}

	fid := <-fidCh
	if strings.HasPrefix(fid, "FAIL: ") {
		// Races and deadlocks are sound whatever the gate says (the instrumenter
		// adds no shared accesses and no blocking); result mismatches are not.
		sound := false
		for k, v := range ag.violations {
			if v.Class == "data-race" || v.Class == "deadlock" {
				sound = true
			} else {
				delete(ag.violations, k)
			}
		}
		if !sound {
			fail2("%s", strings.TrimPrefix(fid, "FAIL: "))
		}
		fmt.Println("vsim: fidelity gate FAILED (result-mismatch candidates discarded; races/deadlocks are still reported):", oneLine(fid, 400))
	}
	b.Fidelity = fid
	fmt.Println("vsim: fidelity gate:", oneLine(fid, 300))

	if ag.harnessLimit > 0 {
		fmt.Printf("vsim: note: %d run(s) stopped at a simulator capacity limit and were not judged: %v\n", ag.harnessLimit, ag.harnessLimitWhy)
		if ag.harnessLimit*50 > ag.runs && len(ag.violations) == 0 {
			fail2("%d of %d runs hit a simulator capacity limit (%v); too many to call the exploration meaningful", ag.harnessLimit, ag.runs, ag.harnessLimitWhy)
		}
	}

	// ---- reach floor ----
	var unreached []string
	for _, n := range b.Instr.EcoDirs {
		if ag.ecoNontriv[n] == 0 {
			unreached = append(unreached, n)
		}
	}
	if len(unreached) > 0 && len(ag.violations) == 0 {
		fail2("reach floor not met: no run with a same-object preemption for ecosystem(s) %v", unreached)
	}

	// ---- violations: confirm, minimise, report ----
	known := loadKnown(filepath.Join(verifDir(), "known-findings.json"))
	nviol := 0
	var reported []map[string]any
	keys := append([]string(nil), ag.vorder...)
	sort.Strings(keys)
	minDeadline := time.Now().Add(time.Duration(cfg.minimiseS * float64(time.Second)))
	var undecided []string
	for _, k := range keys {
		v := ag.violations[k]
		if v == nil {
			continue
		}
		if kf := known.match(v); kf != nil {
			fmt.Printf("KNOWN-FINDING: property=%s %s\n", propertyID, kf.What)
			continue
		}
		if (v.Class == "deadlock" || v.Class == "no-progress") && len(b.Instr.Unseamed) > 0 {
			undecided = append(undecided, fmt.Sprintf("a task stopped making progress (%s: %s), but the library uses constructs whose wake-ups the simulator does not control (%v): the stall may be the simulator's, not the library's - cannot decide", v.Class, oneLine(v.Detail, 200), b.Instr.Unseamed))
			continue
		}
		if v.Class == "no-progress" && v.Engine == "sim" && sequentialAlsoStalls(sp, v) {
			// not judged; undecidable on its own, but it does not take back the
			// other findings of this run
			undecided = append(undecided, fmt.Sprintf("an operation exceeds the per-operation step budget even when the tasks run one after the other without preemption (%s); the budget is too small for this tree - a harness limit, not a progress violation", oneLine(v.Detail, 200)))
			continue
		}
		nviol++
		if nviol > 8 {
			continue // enough distinct reports; the rest is counted only
		}
		mv := minimise(sp, v, minDeadline)
		path := writeReplay(mv, cfg, b)
		fmt.Printf("VIOLATION property=%s replay=%s\n", propertyID, path)
		fmt.Printf("  class=%s engine=%s signature=%s\n  %s\n", mv.Class, mv.Engine, mv.Sig, oneLine(mv.Detail, 600))
		reported = append(reported, map[string]any{"class": mv.Class, "signature": mv.Sig, "replay": path, "engine": mv.Engine})
	}

	writeEvidence(cfg, b, ag, corpusSummary, simWall, time.Since(t0).Seconds(), detChecked, len(detMismatch), nviol, reported)
	if nviol > 0 {
		for _, u := range undecided {
			fmt.Println("vsim: note (not judged):", u)
		}
		return 1
	}
	if len(undecided) > 0 {
		fail2("%s", undecided[0])
	}
	fmt.Printf("vsim: %s held on everything explored (%d runs, %d distinct non-trivial schedules)\n", propertyID, ag.runs, len(ag.nontrivFP))
	return 0
}

func oneLine(s string, n int) string {
	s = strings.Join(strings.Fields(s), " ")
	if len(s) > n {
		s = s[:n] + "..."
	}
	return s
}

func firstLibFrame(trace string) string {
	for _, l := range strings.Split(trace, "\n") {
		l = strings.TrimSpace(l)
		if m := frameLoc.FindStringSubmatch("  " + l); m != nil {
			if rel, ok := libRel(m[1]); ok {
				return rel + ":" + m[2]
			}
		}
	}
	return ""
}

func sampleOf(c *Case, r *RunResult) json.RawMessage {
	m := map[string]any{
		"run_index": c.Spec.Index, "run_seed": c.Spec.Seed, "pool": c.Spec.Ecos, "programs": c.Spec.Tasks,
		"schedule": map[string]any{"policy": c.Spec.Sched.Policy, "seed": c.Spec.Sched.Seed, "num": c.Spec.Sched.Num, "den": c.Spec.Sched.Den, "d": c.Spec.Sched.D},
		"steps":    r.Stats.Steps, "context_switches": r.Stats.Switches, "same_object_preemptions": r.Stats.SameObjPreempts,
	}
	if len(c.Spec.Prewarm) > 0 {
		m["prewarm"] = c.Spec.Prewarm
	}
	b, _ := json.Marshal(m)
	return b
}

// removeStale deletes scratch directories a killed earlier run left behind.
func removeStale(base string) {
	ents, err := os.ReadDir(base)
	if err != nil {
		return
	}
	for _, e := range ents {
		if !e.IsDir() || !strings.HasPrefix(e.Name(), "vsim-") {
			continue
		}
		if info, err := e.Info(); err == nil && time.Since(info.ModTime()) > 6*time.Hour {
			os.RemoveAll(filepath.Join(base, e.Name()))
		}
	}
}

// sequentialAlsoStalls re-executes the failing case of a no-progress candidate
// with the tasks run to completion one after the other. If an operation still
// exceeds the step budget there, the operation is simply long (or the budget
// too small): that is not a progress violation under concurrency.
func sequentialAlsoStalls(sp *simProc, v *Violation) bool {
	if len(v.Cases) == 0 {
		return false
	}
	cases := append([]Case(nil), v.Cases...)
	last := cloneCase(cases[len(cases)-1])
	last.Spec.Sched = Sched{Policy: "rtc", Seed: last.Spec.Sched.Seed}
	cases[len(cases)-1] = last
	ok, _, _ := tryCases(sp, cases, v)
	return ok
}
