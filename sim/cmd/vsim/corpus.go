package main

import (
	"go/ast"
	"go/parser"
	"go/token"
	"os"
	"path/filepath"
	"regexp"
	"sort"
	"strconv"
	"strings"
)

// Corpus mirrors harness.Corpus.
type Corpus struct {
	Eco  map[string][]string `json:"eco"`
	Vers []string            `json:"vers"`
}

func loadCorpus(dir string) *Corpus {
	c := &Corpus{Eco: map[string][]string{}}
	ents, _ := os.ReadDir(dir)
	for _, e := range ents {
		if e.IsDir() || !strings.HasSuffix(e.Name(), ".txt") {
			continue
		}
		b, err := os.ReadFile(filepath.Join(dir, e.Name()))
		if err != nil {
			continue
		}
		name := strings.TrimSuffix(e.Name(), ".txt")
		for _, l := range strings.Split(string(b), "\n") {
			if l == "" {
				continue
			}
			s, err := strconv.Unquote(l)
			if err != nil {
				continue
			}
			if name == "vers" {
				c.Vers = append(c.Vers, s)
			} else {
				c.Eco[name] = append(c.Eco[name], s)
			}
		}
	}
	return c
}

func saveCorpus(dir string, c *Corpus) error {
	os.MkdirAll(dir, 0o755)
	write := func(name string, xs []string) error {
		xs = uniq(xs)
		var b strings.Builder
		for _, s := range xs {
			b.WriteString(strconv.Quote(s))
			b.WriteByte('\n')
		}
		return os.WriteFile(filepath.Join(dir, name+".txt"), []byte(b.String()), 0o644)
	}
	for n, xs := range c.Eco {
		if err := write(n, xs); err != nil {
			return err
		}
	}
	return write("vers", c.Vers)
}

func uniq(xs []string) []string {
	m := map[string]bool{}
	var out []string
	for _, s := range xs {
		if !m[s] {
			m[s] = true
			out = append(out, s)
		}
	}
	sort.Strings(out)
	return out
}

func stringLits(file string) []string {
	fset := token.NewFileSet()
	f, err := parser.ParseFile(fset, file, nil, 0)
	if err != nil {
		return nil
	}
	var out []string
	ast.Inspect(f, func(n ast.Node) bool {
		if bl, ok := n.(*ast.BasicLit); ok && bl.Kind == token.STRING {
			if s, err := strconv.Unquote(bl.Value); err == nil && s != "" && len(s) <= 160 && !strings.ContainsAny(s, "\n\x00") {
				out = append(out, s)
			}
		}
		return true
	})
	return out
}

var codeSpan = regexp.MustCompile("`([^`\n]{1,80})`|\"([^\"\n]{1,80})\"")

// harvest adds string literals from the tree's tests and quoted snippets from
// its documentation to the corpus.
func harvest(repo string, c *Corpus) {
	ecoRoot := filepath.Join(repo, "pkg", "ecosystem")
	ents, _ := os.ReadDir(ecoRoot)
	var allDocs []string
	for _, doc := range []string{"README.md", "cmd/README.md", "CLAUDE.md", "CONTRIBUTING.md"} {
		b, err := os.ReadFile(filepath.Join(repo, doc))
		if err != nil {
			continue
		}
		for _, m := range codeSpan.FindAllStringSubmatch(string(b), -1) {
			s := m[1]
			if s == "" {
				s = m[2]
			}
			allDocs = append(allDocs, s)
		}
	}
	for _, e := range ents {
		if !e.IsDir() {
			continue
		}
		dir := filepath.Join(ecoRoot, e.Name())
		files, _ := filepath.Glob(filepath.Join(dir, "*_test.go"))
		for _, f := range files {
			c.Eco[e.Name()] = append(c.Eco[e.Name()], stringLits(f)...)
		}
		c.Eco[e.Name()] = append(c.Eco[e.Name()], allDocs...)
	}
	// VERS tests and CLI tests: vers strings go to Vers, everything else to every
	// ecosystem that is a VERS scheme target (classification sorts it out)
	var misc []string
	for _, g := range []string{"pkg/spec/vers/*_test.go", "cmd/*_test.go"} {
		files, _ := filepath.Glob(filepath.Join(repo, g))
		for _, f := range files {
			misc = append(misc, stringLits(f)...)
		}
	}
	misc = append(misc, allDocs...)
	for _, s := range misc {
		if strings.HasPrefix(s, "vers:") {
			c.Vers = append(c.Vers, s)
		} else if len(s) <= 40 {
			for n := range c.Eco {
				c.Eco[n] = append(c.Eco[n], s)
			}
		}
	}
	for n := range c.Eco {
		c.Eco[n] = uniq(c.Eco[n])
	}
	c.Vers = uniq(c.Vers)
}
