// Package instr creates the scheduling seam: it rewrites a scratch copy of the
// repository's library packages textually, at AST-derived offsets, never moving
// a line, so every file:line in a race report or replay file is a real /repo
// line.
package instr

import (
	"fmt"
	"go/ast"
	"go/importer"
	"go/parser"
	"go/token"
	"go/types"
	"os"
	"path/filepath"
	"sort"
	"strconv"
	"strings"
)

const (
	SimrtPath   = "zz_sim/simrt"
	SimsyncPath = "zz_sim/simsync"
)

type Site struct {
	ID   int    `json:"id"`
	File string `json:"file"` // relative to the repository root
	Line int    `json:"line"`
	Func string `json:"func"`
	Kind string `json:"kind"` // stmt | entry
	Pkg  string `json:"pkg"`
	Hot  bool   `json:"hot,omitempty"` // the statement contains an atomic / sync operation
}

type Result struct {
	Sites     []Site         `json:"sites"`
	Files     int            `json:"files"`
	Funcs     int            `json:"funcs"`
	Seams     map[string]int `json:"seams"`    // kind -> number of rewritten constructs
	Unseamed  []string       `json:"unseamed"` // recognised but left real
	TypeErrs  []string       `json:"type_errors,omitempty"`
	Packages  []string       `json:"packages"`
	EcoDirs   []string       `json:"eco_dirs"` // pkg/ecosystem/<dir> that define type Ecosystem
	HasVers   bool           `json:"has_vers"`
	ModPath   string         `json:"mod_path"`
	LinesKept bool           `json:"lines_kept"`
}

type edit struct {
	off  int
	text string
	// del > 0 deletes that many bytes at off before inserting text
	del int
	seq int
}

type pkgInfo struct {
	dir   string // absolute
	rel   string // relative import suffix, e.g. pkg/ecosystem/npm
	files []*ast.File
	names []string // absolute file names
	tpkg  *types.Package
	info  *types.Info
}

type instrumenter struct {
	root    string
	mod     string
	fset    *token.FileSet
	pkgs    map[string]*pkgInfo // by import path
	std     types.Importer
	res     *Result
	nextID  int
	loading map[string]bool
}

// ModulePath reads the module path from root/go.mod.
func ModulePath(root string) (string, error) {
	b, err := os.ReadFile(filepath.Join(root, "go.mod"))
	if err != nil {
		return "", err
	}
	for _, l := range strings.Split(string(b), "\n") {
		l = strings.TrimSpace(l)
		if strings.HasPrefix(l, "module ") {
			return strings.TrimSpace(strings.TrimPrefix(l, "module ")), nil
		}
	}
	return "", fmt.Errorf("no module line in go.mod")
}

// Scan lists library package directories (relative to root) under pkg/.
func libDirs(root string) ([]string, error) {
	var dirs []string
	err := filepath.WalkDir(filepath.Join(root, "pkg"), func(p string, d os.DirEntry, err error) error {
		if err != nil {
			return err
		}
		if d.IsDir() {
			if d.Name() == "testdata" || strings.HasPrefix(d.Name(), ".") || strings.HasPrefix(d.Name(), "_") {
				return filepath.SkipDir
			}
			ents, _ := os.ReadDir(p)
			for _, e := range ents {
				if !e.IsDir() && strings.HasSuffix(e.Name(), ".go") && !strings.HasSuffix(e.Name(), "_test.go") {
					rel, _ := filepath.Rel(root, p)
					dirs = append(dirs, filepath.ToSlash(rel))
					break
				}
			}
		}
		return nil
	})
	sort.Strings(dirs)
	return dirs, err
}

// Analyze parses and type-checks the library packages of root without
// modifying anything; Instrument additionally rewrites the files.
func Instrument(root string, write bool) (*Result, error) {
	mod, err := ModulePath(root)
	if err != nil {
		return nil, err
	}
	in := &instrumenter{
		root: root, mod: mod, fset: token.NewFileSet(),
		pkgs: map[string]*pkgInfo{}, loading: map[string]bool{},
		res: &Result{Seams: map[string]int{}, ModPath: mod, LinesKept: true},
	}
	in.std = importer.ForCompiler(in.fset, "source", nil)
	dirs, err := libDirs(root)
	if err != nil {
		return nil, err
	}
	for _, d := range dirs {
		ip := mod + "/" + d
		if _, err := in.load(ip); err != nil {
			return nil, err
		}
		in.res.Packages = append(in.res.Packages, d)
	}
	// ecosystems present
	for _, d := range dirs {
		if strings.HasPrefix(d, "pkg/ecosystem/") && strings.Count(d, "/") == 2 {
			p := in.pkgs[mod+"/"+d]
			if p != nil && p.tpkg != nil && p.tpkg.Scope().Lookup("Ecosystem") != nil {
				in.res.EcoDirs = append(in.res.EcoDirs, strings.TrimPrefix(d, "pkg/ecosystem/"))
			}
		}
		if d == "pkg/spec/vers" {
			in.res.HasVers = true
		}
	}
	for _, d := range dirs {
		p := in.pkgs[mod+"/"+d]
		for i, f := range p.files {
			if err := in.rewriteFile(p, f, p.names[i], write); err != nil {
				return nil, err
			}
			in.res.Files++
		}
	}
	return in.res, nil
}

func (in *instrumenter) Import(path string) (*types.Package, error) {
	if strings.HasPrefix(path, in.mod+"/") || path == in.mod {
		p, err := in.load(path)
		if err != nil {
			return nil, err
		}
		return p.tpkg, nil
	}
	return in.std.Import(path)
}

func (in *instrumenter) load(ip string) (*pkgInfo, error) {
	if p, ok := in.pkgs[ip]; ok {
		return p, nil
	}
	if in.loading[ip] {
		return nil, fmt.Errorf("import cycle through %s", ip)
	}
	in.loading[ip] = true
	defer delete(in.loading, ip)
	rel := strings.TrimPrefix(strings.TrimPrefix(ip, in.mod), "/")
	dir := filepath.Join(in.root, filepath.FromSlash(rel))
	ents, err := os.ReadDir(dir)
	if err != nil {
		return nil, err
	}
	p := &pkgInfo{dir: dir, rel: rel}
	for _, e := range ents {
		n := e.Name()
		if e.IsDir() || !strings.HasSuffix(n, ".go") || strings.HasSuffix(n, "_test.go") {
			continue
		}
		fn := filepath.Join(dir, n)
		f, err := parser.ParseFile(in.fset, fn, nil, parser.ParseComments|parser.SkipObjectResolution)
		if err != nil {
			return nil, fmt.Errorf("parse: %w", err)
		}
		if hasBuildIgnore(f) {
			continue
		}
		p.files = append(p.files, f)
		p.names = append(p.names, fn)
	}
	p.info = &types.Info{
		Types: map[ast.Expr]types.TypeAndValue{},
		Uses:  map[*ast.Ident]types.Object{},
		Defs:  map[*ast.Ident]types.Object{},
	}
	conf := types.Config{
		Importer: in,
		Error: func(err error) {
			if len(in.res.TypeErrs) < 20 {
				in.res.TypeErrs = append(in.res.TypeErrs, err.Error())
			}
		},
	}
	p.tpkg, _ = conf.Check(ip, in.fset, p.files, p.info)
	in.pkgs[ip] = p
	return p, nil
}

func hasBuildIgnore(f *ast.File) bool {
	for _, cg := range f.Comments {
		if cg.Pos() >= f.Package {
			break
		}
		for _, c := range cg.List {
			if strings.HasPrefix(c.Text, "//go:build ") && strings.Contains(c.Text, "ignore") {
				return true
			}
		}
	}
	return false
}

// importName returns the local name under which file f imports path, or "".
func importName(f *ast.File, path string) string {
	for _, is := range f.Imports {
		p, _ := strconv.Unquote(is.Path.Value)
		if p != path {
			continue
		}
		if is.Name != nil {
			if is.Name.Name == "_" || is.Name.Name == "." {
				return ""
			}
			return is.Name.Name
		}
		if i := strings.LastIndex(path, "/"); i >= 0 {
			n := path[i+1:]
			if n == "v2" {
				return "rand"
			}
			return n
		}
		return path
	}
	return ""
}

var timeFuncs = map[string]string{"Now": "Now", "Since": "Since", "Until": "Until", "Sleep": "Sleep", "After": "After",
	// timers: constructors and the type names (so that fields, parameters and
	// variables of type *time.Timer keep compiling)
	"NewTimer": "NewTimer", "AfterFunc": "AfterFunc", "NewTicker": "NewTicker", "Tick": "Tick", "Timer": "Timer", "Ticker": "Ticker"}
var timeUnseamed = map[string]bool{}
var ctxFuncs = map[string]string{"WithCancel": "CtxWithCancel", "WithTimeout": "CtxWithTimeout", "WithDeadline": "CtxWithDeadline",
	"WithCancelCause": "CtxWithCancelCause", "WithTimeoutCause": "CtxWithTimeoutCause", "WithDeadlineCause": "CtxWithDeadlineCause",
	"Cause": "CtxCause", "AfterFunc": "CtxAfterFunc"}
var ctxUnseamed = map[string]bool{}
var randFuncs = map[string]string{
	"Int": "RandInt", "Intn": "RandIntn", "Int31": "RandInt31", "Int31n": "RandInt31n", "Int63": "RandInt63",
	"Int63n": "RandInt63n", "Uint32": "RandUint32", "Uint64": "RandUint64", "Float64": "RandFloat64",
	"Float32": "RandFloat32", "Perm": "RandPerm", "Shuffle": "RandShuffle", "Seed": "RandSeed",
	// math/rand/v2 spellings
	"IntN": "RandIntn", "Int64N": "RandInt63n", "Int32N": "RandInt31n", "Int64": "RandInt63", "Int32": "RandInt31",
}

func (in *instrumenter) rewriteFile(p *pkgInfo, f *ast.File, name string, write bool) error {
	src, err := os.ReadFile(name)
	if err != nil {
		return err
	}
	tf := in.fset.File(f.Pos())
	off := func(pos token.Pos) int { return tf.Offset(pos) }
	relFile, _ := filepath.Rel(in.root, name)
	relFile = filepath.ToSlash(relFile)
	var edits []edit
	seq := 0
	add := func(o int, del int, text string) {
		seq++
		edits = append(edits, edit{off: o, del: del, text: text, seq: seq})
	}
	newSite := func(pos token.Pos, fn, kind string) int {
		in.nextID++
		in.res.Sites = append(in.res.Sites, Site{ID: in.nextID, File: relFile, Line: in.fset.Position(pos).Line, Func: fn, Kind: kind, Pkg: p.rel})
		return in.nextID
	}
	const rt = "zzsimrt"

	timeName := importName(f, "time")
	randName := importName(f, "math/rand")
	if randName == "" {
		randName = importName(f, "math/rand/v2")
	}
	isPkgIdent := func(id *ast.Ident, want string) bool {
		if id == nil || want == "" || id.Name != want {
			return false
		}
		if obj, ok := p.info.Uses[id]; ok {
			_, isPkg := obj.(*types.PkgName)
			return isPkg
		}
		return true // no type info: trust the syntax
	}
	usesTime, usesRand := false, false
	timeStill, randStill := false, false
	runtimeName := importName(f, "runtime")
	usesRuntime, runtimeStill := false, false
	ctxName := importName(f, "context")
	usesCtx, ctxStill := false, false
	mhName := importName(f, "hash/maphash")
	usesMh, mhStill := false, false

	// sync import redirect
	for _, is := range f.Imports {
		pth, _ := strconv.Unquote(is.Path.Value)
		if pth == "sync" {
			repl := strconv.Quote(in.mod + "/" + SimsyncPath)
			if is.Name == nil {
				repl = "sync " + repl
			}
			add(off(is.Path.Pos()), len(is.Path.Value), repl)
			in.res.Seams["sync_import"]++
		}
	}

	// receives in `v, ok := <-ch` context, and channel operations that are the
	// communication of a select case (left real; select is not virtualised)
	commaOK := map[*ast.UnaryExpr]bool{}
	inSelect := map[ast.Node]int{}
	clauseIdx := map[*ast.CommClause]int{}
	unparen := func(e ast.Expr) ast.Expr {
		for {
			p, ok := e.(*ast.ParenExpr)
			if !ok {
				return e
			}
			e = p.X
		}
	}
	ast.Inspect(f, func(n ast.Node) bool {
		switch x := n.(type) {
		case *ast.AssignStmt:
			if len(x.Lhs) == 2 && len(x.Rhs) == 1 {
				if u, ok := unparen(x.Rhs[0]).(*ast.UnaryExpr); ok && u.Op == token.ARROW {
					commaOK[u] = true
				}
			}
		case *ast.ValueSpec:
			if len(x.Names) == 2 && len(x.Values) == 1 {
				if u, ok := unparen(x.Values[0]).(*ast.UnaryExpr); ok && u.Op == token.ARROW {
					commaOK[u] = true
				}
			}
		case *ast.SelectStmt:
			idx := 0
			for _, st := range x.Body.List {
				cc, ok := st.(*ast.CommClause)
				if !ok || cc.Comm == nil {
					continue
				}
				clauseIdx[cc] = idx
				switch c := cc.Comm.(type) {
				case *ast.SendStmt:
					inSelect[c] = idx
				case *ast.ExprStmt:
					if u, ok := unparen(c.X).(*ast.UnaryExpr); ok && u.Op == token.ARROW {
						inSelect[u] = idx
					}
				case *ast.AssignStmt:
					if len(c.Rhs) == 1 {
						if u, ok := unparen(c.Rhs[0]).(*ast.UnaryExpr); ok && u.Op == token.ARROW {
							inSelect[u] = idx
						}
					}
				}
				idx++
			}
		}
		return true
	})
	flat := func(b []byte) string { return strings.ReplaceAll(string(b), "\n", " ") }

	var funcStack []string
	curFunc := func() string {
		if len(funcStack) == 0 {
			return "<init>"
		}
		return funcStack[len(funcStack)-1]
	}
	var walk func(n ast.Node)
	stmtList := func(list []ast.Stmt) {
		for _, s := range list {
			switch s.(type) {
			case *ast.CaseClause, *ast.CommClause:
				continue
			}
			id := newSite(s.Pos(), curFunc(), "stmt")
			if in.hasSyncOp(p, s) {
				in.res.Sites[len(in.res.Sites)-1].Hot = true
				in.res.Seams["hot_sites"]++
			}
			add(off(s.Pos()), 0, fmt.Sprintf("%s.Y(%d);", rt, id))
		}
	}
	body := func(b *ast.BlockStmt, fn string) {
		if b == nil {
			return
		}
		in.res.Funcs++
		id := newSite(b.Lbrace, fn, "entry")
		add(off(b.Lbrace)+1, 0, fmt.Sprintf("%s.Y(%d);", rt, id))
	}
	walk = func(n ast.Node) {
		ast.Inspect(n, func(n ast.Node) bool {
			switch x := n.(type) {
			case *ast.FuncDecl:
				name := x.Name.Name
				if x.Recv != nil && len(x.Recv.List) > 0 {
					name = recvName(x.Recv.List[0].Type) + "." + name
				}
				funcStack = append(funcStack, name)
				body(x.Body, name)
				if x.Body != nil {
					walk(x.Body)
				}
				funcStack = funcStack[:len(funcStack)-1]
				return false
			case *ast.FuncLit:
				name := curFunc() + ".func"
				funcStack = append(funcStack, name)
				body(x.Body, name)
				walk(x.Body)
				funcStack = funcStack[:len(funcStack)-1]
				return false
			case *ast.BlockStmt:
				stmtList(x.List)
			case *ast.CaseClause:
				stmtList(x.Body)
			case *ast.SelectStmt:
				// select { ... }  ->  switch zzsel := simrt.SelectReady(hasDefault, cases...); zzsel.I { ... }
				hasDefault := false
				var cs []string
				for _, st := range x.Body.List {
					cc, ok := st.(*ast.CommClause)
					if !ok {
						continue
					}
					if cc.Comm == nil {
						hasDefault = true
						continue
					}
					switch c := cc.Comm.(type) {
					case *ast.SendStmt:
						cs = append(cs, rt+".CanSend("+flat(src[off(c.Chan.Pos()):off(c.Chan.End())])+", "+flat(src[off(c.Value.Pos()):off(c.Value.End())])+")")
					case *ast.ExprStmt:
						if u, ok := unparen(c.X).(*ast.UnaryExpr); ok && u.Op == token.ARROW {
							cs = append(cs, rt+".CanRecv("+flat(src[off(u.X.Pos()):off(u.X.End())])+")")
						}
					case *ast.AssignStmt:
						if len(c.Rhs) == 1 {
							if u, ok := unparen(c.Rhs[0]).(*ast.UnaryExpr); ok && u.Op == token.ARROW {
								cs = append(cs, rt+".CanRecv("+flat(src[off(u.X.Pos()):off(u.X.End())])+")")
							}
						}
					}
				}
				args := fmt.Sprintf("%v", hasDefault)
				if len(cs) > 0 {
					args += ", " + strings.Join(cs, ", ")
				}
				add(off(x.Select), len("select"), "switch zzsel := "+rt+".SelectReady("+args+"); zzsel.I")
				if !hasDefault {
					// a select without default whose clauses all return is a
					// terminating statement; the switch needs a default to be one
					add(off(x.Body.Rbrace), 0, "; default: panic(\"zzsim: no select case chosen\");")
				}
				in.res.Seams["select"]++
			case *ast.CommClause:
				stmtList(x.Body)
				if x.Comm != nil {
					idx := clauseIdx[x]
					add(off(x.Comm.Pos()), 0, fmt.Sprintf("%d: ", idx))
					add(off(x.Colon), 1, ";")
				}
			case *ast.SendStmt:
				if idx, sel := inSelect[x]; sel {
					add(off(x.Chan.Pos()), 0, fmt.Sprintf("%s.SelSend(zzsel, %d, ", rt, idx))
					add(off(x.Arrow), 2, ",")
					add(off(x.Value.End()), 0, ")")
				} else {
					// ch <- v   ->   simrt.Send(ch, v)
					add(off(x.Chan.Pos()), 0, rt+".Send(")
					add(off(x.Arrow), 2, ",")
					add(off(x.Value.End()), 0, ")")
					in.res.Seams["chan_send"]++
				}
			case *ast.UnaryExpr:
				if x.Op == token.ARROW {
					if idx, sel := inSelect[x]; sel {
						fn := "SelRecv"
						if commaOK[x] {
							fn = "SelRecv2"
						}
						add(off(x.OpPos), 2, fmt.Sprintf("%s.%s(zzsel, %d, ", rt, fn, idx))
						add(off(x.X.End()), 0, ")")
					} else {
						fn := ".Recv("
						if commaOK[x] {
							fn = ".Recv2("
						}
						add(off(x.OpPos), 2, rt+fn)
						add(off(x.X.End()), 0, ")")
						in.res.Seams["chan_recv"]++
					}
				}
			case *ast.CallExpr:
				// channel methods of reflect.Value: x.Recv(), x.Send(v), x.Close()
				if se, ok := x.Fun.(*ast.SelectorExpr); ok && (se.Sel.Name == "Recv" || se.Sel.Name == "Send" || se.Sel.Name == "Close" || se.Sel.Name == "TryRecv" || se.Sel.Name == "TrySend") {
					if tv, ok := p.info.Types[se.X]; ok && tv.Type != nil && tv.Type.String() == "reflect.Value" {
						switch {
						case se.Sel.Name == "Recv" && len(x.Args) == 0, se.Sel.Name == "Close" && len(x.Args) == 0:
							add(off(se.X.Pos()), 0, rt+".RV"+se.Sel.Name+"(")
							add(off(se.X.End()), int(x.Lparen+1-se.X.End()), "")
							in.res.Seams["reflect_chan"]++
						case se.Sel.Name == "Send" && len(x.Args) == 1:
							add(off(se.X.Pos()), 0, rt+".RVSend(")
							add(off(se.X.End()), int(x.Lparen+1-se.X.End()), ", ")
							in.res.Seams["reflect_chan"]++
						default:
							in.noteUnseamed(relFile, x.Pos(), "reflect.Value."+se.Sel.Name+" (not virtualised)")
						}
					}
				}
				if id, ok := x.Fun.(*ast.Ident); ok && id.Name == "close" && len(x.Args) == 1 {
					isBuiltin := true
					if obj, ok := p.info.Uses[id]; ok {
						_, isBuiltin = obj.(*types.Builtin)
					}
					if isBuiltin {
						add(off(id.Pos()), len("close"), rt+".Close")
						in.res.Seams["chan_close"]++
					}
				}
				// uintptr(unsafe.Pointer(p)): an address kept as a number does not
				// keep p alive; whatever is done with it depends on when the
				// collector runs (forced collections are a fault kind then)
				if id, ok := x.Fun.(*ast.Ident); ok && id.Name == "uintptr" && len(x.Args) == 1 {
					if c2, ok := x.Args[0].(*ast.CallExpr); ok {
						if se, ok := c2.Fun.(*ast.SelectorExpr); ok && se.Sel.Name == "Pointer" {
							if pid, ok := se.X.(*ast.Ident); ok && pid.Name == "unsafe" {
								in.res.Seams["gc_lifetime"]++
								in.res.Seams["addr_identity"]++
							}
						}
					}
				}
			case *ast.RangeStmt:
				if tv, ok := p.info.Types[x.X]; ok && tv.Type != nil {
					switch tv.Type.Underlying().(type) {
					case *types.Map:
						add(off(x.X.Pos()), 0, rt+".MapIter(")
						add(off(x.X.End()), 0, ")")
						in.res.Seams["map_range"]++
					case *types.Chan:
						add(off(x.X.Pos()), 0, rt+".ChanIter(")
						add(off(x.X.End()), 0, ")")
						in.res.Seams["chan_range"]++
					}
				}
			case *ast.GoStmt:
				if !in.rewriteGo(p, x, off, add, rt, relFile, src) {
					return false // statement text replaced wholesale: no nested edits
				}
			case *ast.SelectorExpr:
				if id, ok := x.X.(*ast.Ident); ok {
					if id.Name == "weak" && (x.Sel.Name == "Make" || x.Sel.Name == "Pointer") || id.Name == "unique" && x.Sel.Name == "Make" {
						in.res.Seams["gc_lifetime"]++
					}
					if isPkgIdent(id, runtimeName) && x.Sel.Name == "Gosched" {
						add(off(x.Pos()), int(x.End()-x.Pos()), rt+".Gosched")
						in.res.Seams["gosched"]++
						usesRuntime = true
					} else if isPkgIdent(id, runtimeName) && (x.Sel.Name == "GOMAXPROCS" || x.Sel.Name == "NumCPU") {
						add(off(x.Pos()), int(x.End()-x.Pos()), rt+"."+x.Sel.Name)
						in.res.Seams["nproc"]++
						usesRuntime = true
					} else if isPkgIdent(id, runtimeName) && (x.Sel.Name == "SetFinalizer" || x.Sel.Name == "AddCleanup") {
						add(off(x.Pos()), int(x.End()-x.Pos()), rt+"."+x.Sel.Name)
						in.res.Seams["gc_lifetime"]++
						usesRuntime = true
					} else if isPkgIdent(id, runtimeName) {
						runtimeStill = true
					}
					if isPkgIdent(id, timeName) {
						if to, ok := timeFuncs[x.Sel.Name]; ok {
							add(off(x.Pos()), int(x.End()-x.Pos()), rt+"."+to)
							in.res.Seams["time_"+x.Sel.Name]++
							usesTime = true
						} else {
							timeStill = true
							if timeUnseamed[x.Sel.Name] {
								in.noteUnseamed(relFile, x.Pos(), "time."+x.Sel.Name+" (timers are not virtualised)")
							}
						}
					} else if id.Name == "reflect" && x.Sel.Name == "Select" && isPkgIdent(id, "reflect") {
						add(off(x.Pos()), int(x.End()-x.Pos()), rt+".ReflectSelect")
						in.res.Seams["reflect_select"]++
					} else if id.Name == "signal" && x.Sel.Name == "Notify" && isPkgIdent(id, "signal") {
						in.noteUnseamed(relFile, x.Pos(), "signal.Notify (delivery from outside the simulation)")
					} else if isPkgIdent(id, mhName) {
						switch x.Sel.Name {
						case "MakeSeed":
							add(off(x.Pos()), int(x.End()-x.Pos()), rt+".MakeSeed")
							in.res.Seams["maphash_seed"]++
							usesMh = true
						case "String":
							add(off(x.Pos()), int(x.End()-x.Pos()), rt+".MHString")
							in.res.Seams["maphash_hash"]++
							usesMh = true
						case "Bytes":
							add(off(x.Pos()), int(x.End()-x.Pos()), rt+".MHBytes")
							in.res.Seams["maphash_hash"]++
							usesMh = true
						case "Hash", "Comparable", "WriteComparable":
							// hashed with the runtime's per-process random key (and a
							// zero maphash.Hash seeds itself at random)
							mhStill = true
							in.res.Seams["nondet_selfseed"]++
						default:
							mhStill = true
						}
					} else if isPkgIdent(id, ctxName) {
						if to, ok := ctxFuncs[x.Sel.Name]; ok {
							add(off(x.Pos()), int(x.End()-x.Pos()), rt+"."+to)
							in.res.Seams["ctx_"+x.Sel.Name]++
							usesCtx = true
						} else {
							ctxStill = true
							if ctxUnseamed[x.Sel.Name] {
								in.noteUnseamed(relFile, x.Pos(), "context."+x.Sel.Name+" (cancellation from uninstrumented code)")
							}
						}
					} else if isPkgIdent(id, randName) {
						if to, ok := randFuncs[x.Sel.Name]; ok {
							add(off(x.Pos()), int(x.End()-x.Pos()), rt+"."+to)
							in.res.Seams["rand_"+x.Sel.Name]++
							usesRand = true
						} else {
							randStill = true
							if ast.IsExported(x.Sel.Name) && x.Sel.Name != "Rand" && x.Sel.Name != "Source" {
								in.noteUnseamed(relFile, x.Pos(), "rand."+x.Sel.Name+" (left real)")
							}
						}
					}
				}
			}
			return true
		})
	}
	for _, d := range f.Decls {
		walk(d)
	}

	// import of simrt on the package clause line (keeps every line number)
	add(off(f.Name.End()), 0, fmt.Sprintf("; import %s %q", rt, in.mod+"/"+SimrtPath))
	tail := ""
	if usesTime && !timeStill {
		tail += fmt.Sprintf("\nvar _ %s.Duration\n", timeName)
	}
	if usesRuntime && !runtimeStill {
		tail += fmt.Sprintf("\nvar _ = %s.GC\n", runtimeName)
	}
	if usesMh && !mhStill {
		tail += fmt.Sprintf("\nvar _ %s.Seed\n", mhName)
	}
	if usesCtx && !ctxStill {
		tail += fmt.Sprintf("\nvar _ = %s.Background\n", ctxName)
	}
	if usesRand && !randStill {
		tail += fmt.Sprintf("\nvar _ = %s.Int\n", randName)
	}
	// keep simrt "used" even in files without any statement
	tail += fmt.Sprintf("\nvar _ = %s.Y\n", rt)

	sort.SliceStable(edits, func(i, j int) bool {
		if edits[i].off != edits[j].off {
			return edits[i].off < edits[j].off
		}
		// at one offset, pure insertions go before a replacement that starts there
		if (edits[i].del > 0) != (edits[j].del > 0) {
			return edits[i].del == 0
		}
		return edits[i].seq < edits[j].seq
	})
	var out []byte
	last := 0
	for _, e := range edits {
		if e.off < last {
			return fmt.Errorf("%s: overlapping edits at offset %d", relFile, e.off)
		}
		out = append(out, src[last:e.off]...)
		out = append(out, e.text...)
		last = e.off + e.del
	}
	out = append(out, src[last:]...)
	if len(out) > 0 && out[len(out)-1] != '\n' {
		out = append(out, '\n')
	}
	out = append(out, tail...)
	// line count of the original prefix must be unchanged
	if strings.Count(string(out[:len(out)-len(tail)]), "\n") != strings.Count(string(src), "\n")+boolInt(len(src) > 0 && src[len(src)-1] != '\n') {
		in.res.LinesKept = false
	}
	if write {
		return os.WriteFile(name, out, 0o644)
	}
	return nil
}

func boolInt(b bool) int {
	if b {
		return 1
	}
	return 0
}

func (in *instrumenter) noteUnseamed(file string, pos token.Pos, what string) {
	in.res.Unseamed = append(in.res.Unseamed, fmt.Sprintf("%s:%d: %s", file, in.fset.Position(pos).Line, what))
}

// rewriteGo turns `go f(a, b)` into a simrt.Go call that registers a task.
func (in *instrumenter) rewriteGo(p *pkgInfo, g *ast.GoStmt, off func(token.Pos) int, add func(int, int, string), rt, relFile string, src []byte) (descend bool) {
	call := g.Call
	if fl, ok := call.Fun.(*ast.FuncLit); ok && len(call.Args) == 0 {
		// go func(){...}()  ->  simrt.Go(func(){...})
		add(off(g.Go), 2, rt+".Go(")
		add(off(fl.End()), int(call.End()-fl.End()), ")")
		in.res.Seams["go_stmt"]++
		return true
	}
	flat := func(b []byte) string { return strings.ReplaceAll(string(b), "\n", " ") }
	var lhs, rhs, args []string
	for i, a := range call.Args {
		n := fmt.Sprintf("zz%d", i)
		lhs = append(lhs, n)
		rhs = append(rhs, flat(src[off(a.Pos()):off(a.End())]))
		if i == len(call.Args)-1 && call.Ellipsis.IsValid() {
			n += "..."
		}
		args = append(args, n)
	}
	if fl, ok := call.Fun.(*ast.FuncLit); ok {
		// go func(p T){...}(a, b)  ->
		//   simrt.Go(func() func() { zz0, zz1 := a, b; return func() { func(p T){...}(zz0, zz1) } }())
		// The literal stays where it is (and keeps its own yields and seams);
		// arguments are evaluated now, the call happens in the new task.
		add(off(g.Go), 2, fmt.Sprintf("%s.Go(func() func() { %s := %s; return func() {", rt, strings.Join(lhs, ", "), strings.Join(rhs, ", ")))
		tailOrig := src[off(fl.End()):off(call.End())]
		repl := "(" + strings.Join(args, ", ") + ") } }())" + strings.Repeat("\n", strings.Count(string(tailOrig), "\n"))
		add(off(fl.End()), int(call.End()-fl.End()), repl)
		in.res.Seams["go_stmt"]++
		// descend into the literal only: the argument expressions were replaced
		return true
	}
	// general case: evaluate function value and arguments now, call later
	// go f(a, b...) -> { zzf, zz0, zz1 := f, a, b; simrt.Go(func(){ zzf(zz0, zz1...) }) }
	funText := flat(src[off(call.Fun.Pos()):off(call.Fun.End())])
	var text string
	if declaredFunc(p, call.Fun) {
		// a declared function (possibly generic, instantiated by inference from
		// the arguments): nothing to evaluate now, and a generic function cannot
		// be bound to a variable without instantiation
		if len(lhs) == 0 {
			text = fmt.Sprintf("{ %s.Go(func() { %s() }) }", rt, funText)
		} else {
			text = fmt.Sprintf("{ %s := %s; %s.Go(func() { %s(%s) }) }", strings.Join(lhs, ", "), strings.Join(rhs, ", "), rt, funText, strings.Join(args, ", "))
		}
	} else {
		lhs = append([]string{"zzf"}, lhs...)
		rhs = append([]string{funText}, rhs...)
		text = fmt.Sprintf("{ %s := %s; %s.Go(func() { zzf(%s) }) }", strings.Join(lhs, ", "), strings.Join(rhs, ", "), rt, strings.Join(args, ", "))
	}
	// keep line count: pad with the newlines the original text contained
	orig := src[off(g.Pos()):off(g.End())]
	text += strings.Repeat("\n", strings.Count(string(orig), "\n"))
	add(off(g.Pos()), int(g.End()-g.Pos()), text)
	in.res.Seams["go_stmt"]++
	return false
}

// declaredFunc reports whether e names a function declared at package level
// (f, pkg.F, f[T], pkg.F[T]) rather than a function value that has to be
// evaluated when the go statement executes.
func declaredFunc(p *pkgInfo, e ast.Expr) bool {
	switch x := e.(type) {
	case *ast.ParenExpr:
		return declaredFunc(p, x.X)
	case *ast.IndexExpr:
		return declaredFunc(p, x.X)
	case *ast.IndexListExpr:
		return declaredFunc(p, x.X)
	case *ast.Ident:
		f, ok := p.info.Uses[x].(*types.Func)
		return ok && f.Type().(*types.Signature).Recv() == nil
	case *ast.SelectorExpr:
		if id, ok := x.X.(*ast.Ident); ok {
			if _, isPkg := p.info.Uses[id].(*types.PkgName); isPkg {
				_, ok := p.info.Uses[x.Sel].(*types.Func)
				return ok
			}
		}
	}
	return false
}

func recvName(e ast.Expr) string {
	switch x := e.(type) {
	case *ast.StarExpr:
		return recvName(x.X)
	case *ast.Ident:
		return x.Name
	case *ast.IndexExpr:
		return recvName(x.X)
	case *ast.IndexListExpr:
		return recvName(x.X)
	}
	return "?"
}

// hasSyncOp reports whether a statement (not counting nested function literals
// and nested blocks, which have yield points of their own) calls a method of a
// sync/atomic or sync type, or a sync/atomic function. Windows in lock-free and
// lock-based code open and close at such statements.
func (in *instrumenter) hasSyncOp(p *pkgInfo, s ast.Stmt) bool {
	found := false
	var root ast.Node = s
	ast.Inspect(s, func(n ast.Node) bool {
		if found || n == nil {
			return false
		}
		switch x := n.(type) {
		case *ast.FuncLit:
			return false
		case *ast.BlockStmt:
			if ast.Node(x) != root {
				return false
			}
		case *ast.CallExpr:
			sel, ok := x.Fun.(*ast.SelectorExpr)
			if !ok {
				return true
			}
			if id, ok := sel.X.(*ast.Ident); ok {
				if obj, ok := p.info.Uses[id]; ok {
					if pn, ok := obj.(*types.PkgName); ok && pn.Imported().Path() == "sync/atomic" {
						found = true
						return false
					}
				}
			}
			if tv, ok := p.info.Types[sel.X]; ok && tv.Type != nil {
				t := tv.Type
				if pt, ok := t.(*types.Pointer); ok {
					t = pt.Elem()
				}
				if nt, ok := t.(*types.Named); ok && nt.Obj() != nil && nt.Obj().Pkg() != nil {
					switch nt.Obj().Pkg().Path() {
					case "sync/atomic", "sync":
						found = true
						return false
					}
				}
			}
		}
		return true
	})
	return found
}
