package simrt

import (
	"context"
	"time"
	"unsafe"
)

// Cancellable contexts for instrumented library code. The standard library
// closes a context's Done channel from uninstrumented code (and arms a real
// timer for deadlines); a simulated task waiting on that channel would never
// be woken. Inside a simulated run context.WithCancel / WithTimeout /
// WithDeadline are therefore replaced by a context whose Done channel is a
// virtual channel closed through the simulator and whose deadline is a
// discrete-event timer on the simulated clock. Outside a run they are the real
// thing.

type simCtx struct {
	parent   context.Context
	done     chan struct{}
	err      error
	deadline time.Time
	hasDL    bool
	child    *simCtx // first child
	sibling  *simCtx // next child of the same parent
	cause    error
	after    *afterReg // functions registered with context.AfterFunc
}

type afterReg struct {
	f       func()
	stopped bool
	ran     bool
	next    *afterReg
	sync    byte
}

const maxCtx = 1024

var (
	ctxReg  [maxCtx]*simCtx
	nctxReg int
)

//go:norace
func resetCtx() {
	for i := range ctxReg {
		ctxReg[i] = nil
	}
	nctxReg = 0
}

// regCtx remembers c so that a context derived from it later can find it by its
// Done channel. The registry is a ring: with more than maxCtx contexts alive the
// oldest are forgotten (a child created from one of those is simply not linked).
//
//go:norace
func regCtx(c *simCtx) bool {
	ctxReg[nctxReg%maxCtx] = c
	nctxReg++
	return true
}

//go:norace
func ctxByDone(key unsafe.Pointer) *simCtx {
	for i := 0; i < maxCtx; i++ {
		if ctxReg[i] != nil && *(*unsafe.Pointer)(unsafe.Pointer(&ctxReg[i].done)) == key {
			return ctxReg[i]
		}
	}
	return nil
}

//go:norace
func (c *simCtx) link(p *simCtx) {
	c.sibling = p.child
	p.child = c
}

//go:norace
func (c *simCtx) getErr() error { return c.err }

//go:norace
func (c *simCtx) setErr(e, cause error) bool {
	if c.err != nil {
		return false
	}
	c.err = e
	if cause == nil {
		cause = e
	}
	c.cause = cause
	return true
}

//go:norace
func (c *simCtx) getCause() error { return c.cause }

//go:norace
func (c *simCtx) addAfter(r *afterReg) {
	r.next = c.after
	c.after = r
}

//go:norace
func (c *simCtx) takeAfter() *afterReg {
	r := c.after
	c.after = nil
	return r
}

//go:norace
func (r *afterReg) claim() bool {
	if r.stopped || r.ran {
		return false
	}
	r.ran = true
	return true
}

//go:norace
func (r *afterReg) stop() bool {
	if r.stopped || r.ran {
		return false
	}
	r.stopped = true
	return true
}

//go:norace
func (r *afterReg) nextReg() *afterReg { return r.next }

func runAfter(r *afterReg) {
	if !r.claim() {
		return
	}
	f := r.f
	Go(func() {
		RaceAcquire(unsafe.Pointer(&r.sync))
		f()
	})
}

//go:norace
func (c *simCtx) firstChild() *simCtx { return c.child }

//go:norace
func (c *simCtx) nextSibling() *simCtx { return c.sibling }

func (c *simCtx) Deadline() (time.Time, bool) {
	if c.hasDL {
		return c.deadline, true
	}
	return c.parent.Deadline()
}

func (c *simCtx) Done() <-chan struct{} { return c.done }

// Err has the synchronisation of the standard implementation (a mutex): it is
// ordered after a cancel that it observes and before a later one.
func (c *simCtx) Err() error {
	Y(0)
	RaceAcquire(unsafe.Pointer(c))
	e := c.getErr()
	RaceRelease(unsafe.Pointer(c))
	return e
}

func (c *simCtx) Value(k any) any { return c.parent.Value(k) }

func (c *simCtx) cancel(e error) { c.cancelCause(e, nil) }

func (c *simCtx) cancelCause(e, cause error) {
	RaceAcquire(unsafe.Pointer(c))
	first := c.setErr(e, cause)
	RaceRelease(unsafe.Pointer(c))
	if !first {
		return
	}
	cause = c.getCause()
	cancelTimer(*(*unsafe.Pointer)(unsafe.Pointer(&c.done)))
	Close(c.done)
	for ch := c.firstChild(); ch != nil; ch = ch.nextSibling() {
		ch.cancelCause(e, cause)
	}
	for r := c.takeAfter(); r != nil; r = r.nextReg() {
		runAfter(r)
	}
}

func newSimCtx(parent context.Context) *simCtx {
	c := &simCtx{parent: parent, done: make(chan struct{})}
	if !regCtx(c) {
		abort("harness-limit", "too many contexts in one run")
	}
	if pd := parent.Done(); pd != nil {
		if p := ctxByDone(*(*unsafe.Pointer)(unsafe.Pointer(&pd))); p != nil {
			RaceAcquire(unsafe.Pointer(p))
			pe := p.getErr()
			RaceRelease(unsafe.Pointer(p))
			if pe != nil {
				c.cancelCause(pe, p.getCause())
			} else {
				c.link(p)
			}
		}
	}
	return c
}

// CtxWithCancel replaces context.WithCancel.
func CtxWithCancel(parent context.Context) (context.Context, context.CancelFunc) {
	if !Active() {
		return context.WithCancel(parent)
	}
	if parent == nil {
		panic("cannot create context from nil parent")
	}
	Y(0)
	c := newSimCtx(parent)
	return c, func() { Y(0); c.cancel(context.Canceled) }
}

// CtxWithDeadline replaces context.WithDeadline; the deadline is read against
// the simulated clock.
func CtxWithDeadline(parent context.Context, d time.Time) (context.Context, context.CancelFunc) {
	if !Active() {
		return context.WithDeadline(parent, d)
	}
	if parent == nil {
		panic("cannot create context from nil parent")
	}
	if cur, ok := parent.Deadline(); ok && cur.Before(d) {
		return CtxWithCancel(parent)
	}
	Y(0)
	c := newSimCtx(parent)
	c.deadline, c.hasDL = d, true
	at := d.UnixNano()
	if at <= nowNanos() {
		c.cancel(context.DeadlineExceeded)
		return c, func() { Y(0); c.cancel(context.Canceled) }
	}
	if c.getErr() == nil {
		noteTimer()
		// keyed by the Done channel, so that a select waiting on it can have the
		// deadline fire early under the clock fault
		if !addTimer(at, *(*unsafe.Pointer)(unsafe.Pointer(&c.done)), func() { c.cancel(context.DeadlineExceeded) }) {
			abort("harness-limit", "too many pending timers")
		}
	}
	return c, func() { Y(0); c.cancel(context.Canceled) }
}

// CtxWithTimeout replaces context.WithTimeout.
func CtxWithTimeout(parent context.Context, d time.Duration) (context.Context, context.CancelFunc) {
	if !Active() {
		return context.WithTimeout(parent, d)
	}
	return CtxWithDeadline(parent, time.Unix(0, nowNanos()+int64(d)))
}

// simCtxOf finds the simulator-owned context behind ctx (ctx itself, or the one
// whose Done channel ctx inherits through WithValue and the like).
func simCtxOf(ctx context.Context) *simCtx {
	if c, ok := ctx.(*simCtx); ok {
		return c
	}
	if d := ctx.Done(); d != nil {
		return ctxByDone(*(*unsafe.Pointer)(unsafe.Pointer(&d)))
	}
	return nil
}

// CtxWithCancelCause replaces context.WithCancelCause.
func CtxWithCancelCause(parent context.Context) (context.Context, context.CancelCauseFunc) {
	if !Active() {
		return context.WithCancelCause(parent)
	}
	if parent == nil {
		panic("cannot create context from nil parent")
	}
	Y(0)
	c := newSimCtx(parent)
	return c, func(cause error) { Y(0); c.cancelCause(context.Canceled, cause) }
}

// CtxWithDeadlineCause and CtxWithTimeoutCause replace their context namesakes.
func CtxWithDeadlineCause(parent context.Context, d time.Time, cause error) (context.Context, context.CancelFunc) {
	if !Active() {
		return context.WithDeadlineCause(parent, d, cause)
	}
	ctx, cancel := CtxWithDeadline(parent, d)
	if c, ok := ctx.(*simCtx); ok && c.hasDL {
		// re-key the deadline so that it carries the cause
		key := *(*unsafe.Pointer)(unsafe.Pointer(&c.done))
		if cancelTimer(key) {
			if !addTimer(d.UnixNano(), key, func() { c.cancelCause(context.DeadlineExceeded, cause) }) {
				abort("harness-limit", "too many pending timers")
			}
		}
	}
	return ctx, cancel
}

func CtxWithTimeoutCause(parent context.Context, d time.Duration, cause error) (context.Context, context.CancelFunc) {
	if !Active() {
		return context.WithTimeoutCause(parent, d, cause)
	}
	return CtxWithDeadlineCause(parent, time.Unix(0, nowNanos()+int64(d)), cause)
}

// CtxCause replaces context.Cause.
func CtxCause(ctx context.Context) error {
	if c := simCtxOf(ctx); c != nil {
		Y(0)
		RaceAcquire(unsafe.Pointer(c))
		e := c.getCause()
		RaceRelease(unsafe.Pointer(c))
		return e
	}
	return context.Cause(ctx)
}

// CtxAfterFunc replaces context.AfterFunc: f runs as a simulated task of its own
// once the context is done.
func CtxAfterFunc(ctx context.Context, f func()) (stop func() bool) {
	c := simCtxOf(ctx)
	if c == nil || !Active() {
		return context.AfterFunc(ctx, f)
	}
	Y(0)
	r := &afterReg{f: f}
	RaceRelease(unsafe.Pointer(&r.sync))
	RaceAcquire(unsafe.Pointer(c))
	done := c.getErr() != nil
	RaceRelease(unsafe.Pointer(c))
	if done {
		runAfter(r)
	} else {
		c.addAfter(r)
	}
	return func() bool { Y(0); return r.stop() }
}
