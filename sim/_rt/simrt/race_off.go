//go:build !race

package simrt

import "unsafe"

const RaceEnabled = false

func RaceAcquire(p unsafe.Pointer)      {}
func RaceRelease(p unsafe.Pointer)      {}
func RaceReleaseMerge(p unsafe.Pointer) {}
func RaceErrors() int                   { return 0 }
