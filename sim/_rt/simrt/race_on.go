//go:build race

package simrt

import (
	"runtime"
	"unsafe"
)

const RaceEnabled = true

func RaceAcquire(p unsafe.Pointer)      { runtime.RaceAcquire(p) }
func RaceRelease(p unsafe.Pointer)      { runtime.RaceRelease(p) }
func RaceReleaseMerge(p unsafe.Pointer) { runtime.RaceReleaseMerge(p) }
func RaceErrors() int                   { return runtime.RaceErrors() }
