package simrt

import (
	"reflect"
	"runtime"
	"sync"
)

// Object-lifetime seam. Finalizers and cleanups registered by library code run
// on a runtime goroutine the simulator does not own; if their code executed
// there it would call yield points while a task holds the turn. So the
// instrumenter redirects runtime.SetFinalizer / runtime.AddCleanup here: inside
// the simulator process the function handed to the runtime only records that
// the object died; the real cleanup code runs later at a point the simulator
// chooses - as a task of its own inside a run (after a forced collection), or
// on the main goroutine at a run boundary. Which objects the collector finds
// dead is still the collector's business.

var (
	lifeMu   sync.Mutex
	deferred []func()
	simProc  bool // set by the harness in the simulator process
)

// InSimulatorProcess makes finalizers and cleanups deferred (see above).
func InSimulatorProcess() { simProc = true }

func deferCleanup(f func()) {
	lifeMu.Lock()
	deferred = append(deferred, f)
	lifeMu.Unlock()
}

func takeDeferred() []func() {
	lifeMu.Lock()
	d := deferred
	deferred = nil
	lifeMu.Unlock()
	return d
}

// AddCleanup replaces runtime.AddCleanup in instrumented library code.
func AddCleanup[T, S any](ptr *T, cleanup func(S), arg S) runtime.Cleanup {
	if !simProc {
		return runtime.AddCleanup(ptr, cleanup, arg)
	}
	return runtime.AddCleanup(ptr, func(a S) { deferCleanup(func() { cleanup(a) }) }, arg)
}

// SetFinalizer replaces runtime.SetFinalizer in instrumented library code.
func SetFinalizer(obj any, finalizer any) {
	if !simProc || finalizer == nil {
		runtime.SetFinalizer(obj, finalizer)
		return
	}
	fv := reflect.ValueOf(finalizer)
	if fv.Kind() != reflect.Func {
		runtime.SetFinalizer(obj, finalizer) // let the runtime report the misuse
		return
	}
	wrapped := reflect.MakeFunc(fv.Type(), func(args []reflect.Value) []reflect.Value {
		deferCleanup(func() { fv.Call(args) })
		out := make([]reflect.Value, fv.Type().NumOut())
		for i := range out {
			out[i] = reflect.Zero(fv.Type().Out(i))
		}
		return out
	})
	runtime.SetFinalizer(obj, wrapped.Interface())
}

// collect forces a collection and gives the runtime's finalizer goroutine the
// processor until it has recorded every object that died.
func collectGarbage() {
	for round := 0; round < 2; round++ {
		runtime.GC()
		for i := 0; i < 8; i++ {
			runtime.Gosched()
		}
	}
}

// DrainFinalizers collects garbage at a run boundary. The cleanups of what died
// are not run here, on the harness's goroutine and outside any run: one of them
// may need a lock that a library goroutine kept from the last run is holding
// (it was parked in the middle of its critical section), and nothing could ever
// release it. They are queued and run as a task of their own in the next run.
func DrainFinalizers() {
	collectGarbage()
	queueCleanups(takeDeferred())
}

var pendingCleanups []func()

func queueCleanups(fs []func()) { pendingCleanups = append(pendingCleanups, fs...) }

// takePendingCleanups hands the queued cleanups to the run that is starting.
func takePendingCleanups() []func() {
	fs := pendingCleanups
	pendingCleanups = nil
	return fs
}

// forceGC is the garbage-collection fault: at a seeded step the current task
// forces a collection; the cleanups of the objects that died then run as a
// simulated task of their own, interleaved with the client tasks like the
// runtime's finalizer goroutine would be.
func forceGC() {
	setGCPause(true)
	collectGarbage()
	d := takeDeferred()
	setGCPause(false)
	if len(d) == 0 {
		return
	}
	Go(func() {
		for _, f := range d {
			f()
		}
	})
}

//go:norace
func setGCPause(b bool) {
	gcPause = b
	if b {
		stats.ForcedGCs++
	}
}

// GCBetweenOps is the collector fault at operation boundaries: when the run has
// collection points at all (trees whose behaviour can depend on what the
// collector has freed), one operation boundary in three forces a collection, so
// that a value dropped by one operation is gone - and its memory reusable - when
// the next one allocates.
func GCBetweenOps() {
	if !Active() || !gcFaultOn() {
		return
	}
	forceGC()
}

//go:norace
func gcFaultOn() bool { return faults.GCPoints > 0 && frng.next()%2 == 0 }
