package simrt

import (
	"iter"
	"reflect"
	"time"
	"unsafe"
)

// Virtual channel operations for instrumented library code. A task that would
// block on a channel marks itself blocked and hands the turn to the scheduler
// (parking in the Go runtime would hang a serialised execution).
//
// Buffered channels keep using the real channel as storage (so len/cap and the
// race detector's own channel edges stay real); an operation is only issued
// when it cannot block. Unbuffered channels are modelled as a rendezvous queue
// with the memory-model edges issued explicitly.
//
// select statements are not virtualised (listed as unseamed by the
// instrumenter); a select that has to wait ends in the watchdog (exit 2).

const (
	maxVChans   = 8192 // power of two; open addressing by channel pointer
	maxVPending = 64
)

type vitem struct {
	v     any
	taken bool
	used  bool
}

// vqueue is the rendezvous queue of an unbuffered channel (allocated on first use).
type vqueue struct {
	items [maxVPending]vitem
	head  int
	n     int
}

type vchan struct {
	key    unsafe.Pointer
	closed bool
	recvs  int // receivers currently waiting (unbuffered)
	q      *vqueue
}

var (
	vchans    [maxVChans]vchan
	vchanUsed [maxVChans]int32
	nvchans   int
)

//go:norace
func resetChans() {
	resetSelWaiters()
	for i := 0; i < nvchans; i++ {
		vchans[vchanUsed[i]] = vchan{}
	}
	nvchans = 0
}

// compactChans drops the entries of idle channels (nothing queued, nobody
// waiting): all they hold is the closed flag, which the real channel carries
// too. Called between runs when library goroutines live on, instead of the full
// reset; a library that makes a reply channel per request would otherwise fill
// the table over a long batch.
//
//go:norace
func compactChans() {
	var keep [256]vchan
	nk := 0
	for i := 0; i < nvchans; i++ {
		c := &vchans[vchanUsed[i]]
		busy := c.recvs > 0 || (c.q != nil && c.q.n > 0)
		if !busy {
			for t := int32(1); t < ntasks && !busy; t++ {
				busy = tasks[t].state == stBlocked && tasks[t].blockedOn == uintptr(c.key)
			}
		}
		if busy && nk < len(keep) {
			keep[nk] = *c
			nk++
		}
		*c = vchan{}
	}
	nvchans = 0
	for k := 0; k < nk; k++ {
		c := vchanOf(keep[k].key)
		*c = keep[k]
	}
}

//go:norace
func vchanOf(key unsafe.Pointer) *vchan {
	h := (uintptr(key) >> 4) * 0x9e3779b1
	for probe := 0; probe < maxVChans; probe++ {
		i := (h + uintptr(probe)) & (maxVChans - 1)
		c := &vchans[i]
		if c.key == key {
			return c
		}
		if c.key == nil {
			if nvchans >= maxVChans*3/4 {
				break
			}
			c.key = key
			vchanUsed[nvchans] = int32(i)
			nvchans++
			return c
		}
	}
	abort("harness-limit", "more than 6144 channels in one run")
	return nil
}

//go:norace
func (c *vchan) isClosed() bool { return c.closed }

//go:norace
func (c *vchan) setClosed() { c.closed = true }

//go:norace
func (c *vchan) push(v any) *vitem {
	if c.q == nil {
		c.q = new(vqueue)
	}
	q := c.q
	if q.n >= maxVPending {
		abort("harness-limit", "too many pending senders on one unbuffered channel")
	}
	it := &q.items[(q.head+q.n)%maxVPending]
	*it = vitem{v: v, used: true}
	q.n++
	return it
}

//go:norace
func (c *vchan) pop() (*vitem, bool) {
	q := c.q
	if q == nil || q.n == 0 {
		return nil, false
	}
	it := &q.items[q.head]
	q.head = (q.head + 1) % maxVPending
	q.n--
	it.taken = true
	return it, true
}

//go:norace
func (it *vitem) isTaken() bool { return it.taken }

//go:norace
func (it *vitem) value() any { return it.v }

func chanKey[T any](ch chan T) unsafe.Pointer { return *(*unsafe.Pointer)(unsafe.Pointer(&ch)) }

//go:norace
func noteChan() {
	if on {
		stats.ChanOps++
	}
}

// ---- blocked selects as rendezvous partners ----
//
// A select that has to wait registers itself; a later send, receive or select
// on one of its unbuffered channels completes the exchange on its behalf (as
// the runtime does with its wait queues). Without this two selects facing each
// other - one offering a send, one a receive, on the same unbuffered channel -
// would both wait for a "plain" partner that never comes.

type selWaiter struct {
	cases   []SelCase
	fired   int // -1 while waiting, else the case a partner completed
	got     any
	ok      bool
	next    *selWaiter
	syncIn  byte // partner -> waiter edge
	syncOut byte // waiter (as of blocking) -> partner edge
}

var selHead *selWaiter

//go:norace
func resetSelWaiters() { selHead = nil }

//go:norace
func (w *selWaiter) register() {
	w.fired = -1
	w.next = selHead
	selHead = w
}

//go:norace
func (w *selWaiter) unregister() {
	for pp := &selHead; *pp != nil; pp = &(*pp).next {
		if *pp == w {
			*pp = w.next
			w.next = nil
			return
		}
	}
}

//go:norace
func (w *selWaiter) firedCase() int { return w.fired }

// findSelPartner returns a blocked select (other than not) with an open case of
// the wanted direction on the unbuffered channel key, and the index of that case.
//
//go:norace
func findSelPartner(key unsafe.Pointer, wantSend bool, not *selWaiter) (*selWaiter, int) {
	if key == nil {
		return nil, -1
	}
	for w := selHead; w != nil; w = w.next {
		if w == not || w.fired >= 0 {
			continue
		}
		for i := range w.cases {
			c := &w.cases[i]
			if c.key == key && c.send == wantSend && c.cap == 0 {
				return w, i
			}
		}
	}
	return nil, -1
}

//go:norace
func (w *selWaiter) complete(i int, v any, ok bool) {
	w.fired, w.got, w.ok = i, v, ok
}

//go:norace
func (w *selWaiter) caseVal(i int) any { return w.cases[i].val }

// handTo completes case i of the blocked select w with value v (for a receive
// case) and wakes it. Both directions of the unbuffered rendezvous are ordered:
// what the waiter did before it blocked happens before what the caller does
// next, and what the caller did so far happens before the waiter goes on.
func handTo(w *selWaiter, i int, v any) {
	RaceAcquire(unsafe.Pointer(&w.syncOut))
	w.complete(i, v, true)
	RaceRelease(unsafe.Pointer(&w.syncIn))
	Wake(unsafe.Pointer(&selectAddr))
}

// closedNow reports whether ch is closed. The virtual closed flag only lives for
// one run, but a channel kept in library state outlives it (a "ready" channel
// closed in one run and waited on in the next), so the real channel is closed
// too and asked when the flag is not set. Asking is a non-blocking receive on
// an empty channel: no real sender exists on a virtualised channel, so it
// either reports the close or does nothing.
func closedNow[T any](c *vchan, ch <-chan T) bool {
	if c.isClosed() {
		return true
	}
	if len(ch) > 0 {
		return false
	}
	select {
	case _, ok := <-ch:
		if ok {
			abort("harness-limit", "a value arrived on a virtualised channel from outside the simulation")
		}
		c.setClosed()
		return true
	default:
		return false
	}
}

// Send replaces `ch <- v`.
func Send[T any](ch chan<- T, v T) {
	if !Active() {
		ch <- v
		return
	}
	noteChan()
	if ch == nil {
		for {
			Block(unsafe.Pointer(&vchans)) // nil channel: blocks forever
		}
	}
	key := *(*unsafe.Pointer)(unsafe.Pointer(&ch))
	c := vchanOf(key)
	if cap(ch) > 0 {
		for len(ch) >= cap(ch) && !c.isClosed() {
			Block(key)
		}
		ch <- v // cannot block: there is room (or it is closed and panics, as it must)
		Wake(key)
		Wake(unsafe.Pointer(&selectAddr))
		return
	}
	if c.isClosed() {
		panic("send on closed channel")
	}
	if w, i := findSelPartner(key, false, nil); w != nil {
		// a blocked select is waiting to receive on this channel
		handTo(w, i, v)
		return
	}
	it := c.push(v)
	// sender -> receiver edge on an address of this item alone: a release on the
	// channel's own address would be overwritten by the next pending sender
	RaceRelease(unsafe.Pointer(&it.taken))
	Wake(key)
	Wake(unsafe.Pointer(&selectAddr))
	for !it.isTaken() {
		if c.isClosed() {
			panic("send on closed channel")
		}
		Block(unsafe.Pointer(it))
	}
	RaceAcquire(unsafe.Pointer(it))
}

func recv[T any](ch <-chan T) (T, bool) {
	if !Active() {
		v, ok := <-ch
		return v, ok
	}
	noteChan()
	if ch == nil {
		for {
			Block(unsafe.Pointer(&vchans))
		}
	}
	key := *(*unsafe.Pointer)(unsafe.Pointer(&ch))
	c := vchanOf(key)
	if cap(ch) > 0 {
		for len(ch) == 0 && !closedNow(c, ch) {
			if timerFault() && fireTimerFor(key) {
				// clock fault: the timer behind this channel fires now, while the
				// other tasks are in the middle of whatever they are doing
				continue
			}
			Block(key)
		}
		v, ok := <-ch // cannot block: data is buffered, or the channel is closed
		Wake(key)
		Wake(unsafe.Pointer(&selectAddr))
		return v, ok
	}
	for {
		if it, ok := c.pop(); ok {
			RaceAcquire(unsafe.Pointer(&it.taken))
			v, _ := it.value().(T)
			RaceRelease(unsafe.Pointer(it))
			Wake(unsafe.Pointer(it))
			return v, true
		}
		if closedNow(c, ch) {
			RaceAcquire(key)
			var zero T
			return zero, false
		}
		if w, i := findSelPartner(key, true, nil); w != nil {
			// a blocked select is waiting to send on this channel
			v, _ := w.caseVal(i).(T)
			handTo(w, i, nil)
			return v, true
		}
		// a receiver is now waiting: a select with a send case on this channel
		// may proceed
		c.addRecv(1)
		Wake(unsafe.Pointer(&selectAddr))
		func() {
			defer c.addRecv(-1)
			Block(key)
		}()
	}
}

// Recv replaces `<-ch` in single-value context.
func Recv[T any](ch <-chan T) T {
	v, _ := recv(ch)
	return v
}

// Recv2 replaces `<-ch` in `v, ok := <-ch` context.
func Recv2[T any](ch <-chan T) (T, bool) { return recv(ch) }

// Close replaces the builtin close for channels.
func Close[T any](ch chan<- T) {
	if !Active() {
		close(ch)
		return
	}
	noteChan()
	key := *(*unsafe.Pointer)(unsafe.Pointer(&ch))
	c := vchanOf(key)
	if cap(ch) == 0 {
		if c.isClosed() {
			panic("close of closed channel")
		}
		RaceRelease(key)
	}
	c.setClosed()
	// the real channel is closed as well (for an unbuffered one nothing else
	// ever touches it): the close then survives the run
	close(ch)
	Wake(key)
	Wake(unsafe.Pointer(&selectAddr))
	// senders parked on their own item must notice the close
	wakeAllItems(c)
}

//go:norace
func wakeAllItems(c *vchan) {
	if c.q == nil {
		return
	}
	for i := 0; i < maxVPending; i++ {
		if c.q.items[i].used && !c.q.items[i].taken {
			Wake(unsafe.Pointer(&c.q.items[i]))
		}
	}
}

// ChanIter replaces `range ch`.
func ChanIter[T any](ch <-chan T) iter.Seq[T] {
	return func(yield func(T) bool) {
		for {
			v, ok := recv(ch)
			if !ok {
				return
			}
			if !yield(v) {
				return
			}
		}
	}
}

// ---- select ----
//
// A select statement is rewritten by the instrumenter into
//
//	switch zzsel := simrt.SelectReady(hasDefault, simrt.CanRecv(ch1), simrt.CanSend(ch2, x)); zzsel.I {
//	case 0: v := simrt.SelRecv(zzsel, 0, ch1); ...
//	case 1: simrt.SelSend(zzsel, 1, ch2, x); ...
//	default: ...
//	}
//
// Inside a simulated run SelectReady blocks the task (in the simulator) until
// at least one case can proceed and chooses among the ready ones with the
// run's PRNG; no other task runs between that decision and the chosen
// operation, which SelRecv / SelSend perform on the channel recorded at entry.
// Outside a simulated run (the fidelity gate, reference evaluation) the real
// select is performed through reflect.Select and SelRecv / SelSend only hand
// over its outcome. Deviations, stated: channel and value expressions are
// evaluated a second time in the chosen case (the second value is ignored);
// two selects facing each other on one unbuffered channel do not rendezvous
// inside the simulator (a plain send/receive on the other side does).

// SelCase describes one communication case of a select.
type SelCase struct {
	key  unsafe.Pointer
	send bool
	cap  int
	len  func() int
	ch   any
	rv   reflect.Value
	val  any
	shut func(*vchan) bool // receive cases: closed, by flag or for real
}

// Sel is the outcome of SelectReady.
type Sel struct {
	I     int
	cases []SelCase
	real  bool
	got   reflect.Value
	ok    bool
	done  bool // a partner completed the chosen case while this select was blocked
	gotV  any
}

func CanRecv[T any](ch <-chan T) SelCase {
	return SelCase{key: *(*unsafe.Pointer)(unsafe.Pointer(&ch)), cap: cap(ch), len: func() int { return len(ch) }, ch: ch, rv: reflect.ValueOf(ch),
		shut: func(c *vchan) bool { return closedNow(c, ch) }}
}

func CanSend[T any](ch chan<- T, v T) SelCase {
	return SelCase{key: *(*unsafe.Pointer)(unsafe.Pointer(&ch)), send: true, cap: cap(ch), len: func() int { return len(ch) }, ch: ch, rv: reflect.ValueOf(ch), val: v}
}

var selectAddr byte

//go:norace
func (c *vchan) pending() int {
	if c.q == nil {
		return 0
	}
	return c.q.n
}

//go:norace
func (c *vchan) waitingRecvs() int { return c.recvs }

//go:norace
func (c *vchan) addRecv(d int) { c.recvs += d }

func caseReady(sc *SelCase, self *selWaiter) bool {
	if sc.key == nil {
		return false // nil channel: never ready
	}
	c := vchanOf(sc.key)
	if sc.cap > 0 {
		if sc.send {
			return sc.len() < sc.cap || c.isClosed()
		}
		return sc.len() > 0 || sc.shut(c)
	}
	if sc.send {
		// a receiver is waiting that no pending sender has already claimed, or
		// another blocked select offers to receive
		if c.waitingRecvs() > c.pending() || c.isClosed() {
			return true
		}
		w, _ := findSelPartner(sc.key, false, self)
		return w != nil
	}
	if c.pending() > 0 || sc.shut(c) {
		return true
	}
	w, _ := findSelPartner(sc.key, true, self)
	return w != nil
}

//go:norace
func selDraw(n int) int { return int(rng.next() % uint64(n)) }

//go:norace
func noteSelect() {
	if on {
		stats.Selects++
	}
}

// SelectReady decides which case of a select proceeds (I == -1: default).
func SelectReady(hasDefault bool, cases ...SelCase) *Sel {
	s := &Sel{cases: cases}
	if !Active() {
		rc := make([]reflect.SelectCase, 0, len(cases)+1)
		for i := range cases {
			c := &cases[i]
			if c.send {
				sv := reflect.Zero(c.rv.Type().Elem())
				if c.val != nil {
					sv = reflect.ValueOf(c.val).Convert(c.rv.Type().Elem())
				}
				rc = append(rc, reflect.SelectCase{Dir: reflect.SelectSend, Chan: c.rv, Send: sv})
			} else {
				rc = append(rc, reflect.SelectCase{Dir: reflect.SelectRecv, Chan: c.rv})
			}
		}
		if hasDefault {
			rc = append(rc, reflect.SelectCase{Dir: reflect.SelectDefault})
		}
		i, got, ok := reflect.Select(rc)
		s.real, s.got, s.ok = true, got, ok
		if hasDefault && i == len(cases) {
			i = -1
		}
		s.I = i
		return s
	}
	noteSelect()
	w := &selWaiter{cases: cases, fired: -1}
	registered := false
	for {
		if registered {
			if i := w.firedCase(); i >= 0 {
				// a partner completed one of the cases while this select waited
				RaceAcquire(unsafe.Pointer(&w.syncIn))
				w.unregister()
				s.I, s.done, s.gotV, s.ok = i, true, w.got, w.ok
				return s
			}
		}
		var ready [16]int
		n := 0
		for i := range cases {
			if n < len(ready) && caseReady(&cases[i], w) {
				ready[n] = i
				n++
			}
		}
		if n > 0 {
			if registered {
				w.unregister()
			}
			s.I = ready[selDraw(n)]
			return s
		}
		if hasDefault {
			if registered {
				w.unregister()
			}
			s.I = -1
			return s
		}
		// clock-jump fault: the machine is slow, a timer this select waits for
		// expires although other tasks could still run
		if timerFault() && fireTimerAmong(cases) {
			continue
		}
		if !registered {
			w.register()
			registered = true
			RaceRelease(unsafe.Pointer(&w.syncOut))
		}
		Block(unsafe.Pointer(&selectAddr))
	}
}

//go:norace
func timerFault() bool {
	return on && faults.ClockJump && nvtimers > 0 && frng.next()%4 == 0
}

// fireTimerAmong fires a pending timer whose channel is one of the cases.
func fireTimerAmong(cases []SelCase) bool {
	for i := range cases {
		if cases[i].send || cases[i].key == nil {
			continue
		}
		if fireTimerFor(cases[i].key) {
			return true
		}
	}
	return false
}

//go:norace
func fireTimerFor(key unsafe.Pointer) bool {
	for i := range vtimers {
		if vtimers[i].used && vtimers[i].key == key {
			t := vtimers[i]
			vtimers[i] = vtimer{}
			nvtimers--
			if t.at > simNow {
				simNow = t.at
			}
			stats.TimersFired++
			stats.ClockJumps++
			RaceAcquire(unsafe.Pointer(&vtimers[i]))
			t.fire()
			return true
		}
	}
	return false
}

// SelRecv2 performs (or hands over) the receive of the chosen case.
func SelRecv2[T any](s *Sel, i int, _ <-chan T) (T, bool) {
	if s.real {
		var zero T
		if !s.got.IsValid() {
			return zero, s.ok
		}
		v, _ := s.got.Interface().(T)
		return v, s.ok
	}
	if s.done {
		v, _ := s.gotV.(T)
		return v, s.ok
	}
	ch, _ := s.cases[i].ch.(<-chan T)
	return recv(ch)
}

func SelRecv[T any](s *Sel, i int, ch <-chan T) T {
	v, _ := SelRecv2(s, i, ch)
	return v
}

// SelSend performs the send of the chosen case (outside a simulated run the
// real select has already sent).
func SelSend[T any](s *Sel, i int, _ chan<- T, _ T) {
	if s.real || s.done {
		return
	}
	ch, _ := s.cases[i].ch.(chan<- T)
	v, _ := s.cases[i].val.(T)
	Send(ch, v)
}

// ---- timers (discrete-event: fire only when nothing else can run) ----

type vtimer struct {
	at   int64
	fire func()
	used bool
	key  unsafe.Pointer
}

var (
	vtimers  [2048]vtimer
	nvtimers int
)

//go:norace
func resetTimers() {
	for i := range vtimers {
		vtimers[i] = vtimer{}
	}
	nvtimers = 0
}

//go:norace
func addTimer(at int64, key unsafe.Pointer, fire func()) bool {
	for i := range vtimers {
		if !vtimers[i].used {
			vtimers[i] = vtimer{at: at, fire: fire, used: true, key: key}
			nvtimers++
			// arming happens-before firing, as with the runtime's timers (the
			// closure's captured variables are written here and read there)
			RaceRelease(unsafe.Pointer(&vtimers[i]))
			return true
		}
	}
	return false
}

// fireEarliestTimer advances the simulated clock to the earliest pending timer
// and fires it. Called when no task is runnable.
//
//go:norace
func fireEarliestTimer() bool {
	best := -1
	for i := range vtimers {
		if vtimers[i].used && (best < 0 || vtimers[i].at < vtimers[best].at) {
			best = i
		}
	}
	if best < 0 {
		return false
	}
	t := vtimers[best]
	vtimers[best] = vtimer{}
	nvtimers--
	if t.at > simNow {
		simNow = t.at
	}
	stats.TimersFired++
	RaceAcquire(unsafe.Pointer(&vtimers[best]))
	t.fire()
	return true
}

// After replaces time.After: the channel delivers once simulated time has
// passed d, which happens when every task is waiting (the clock jumps to the
// next timer) or when the simulated clock is advanced past it by Sleep.
func After(d time.Duration) <-chan time.Time {
	if !Active() {
		return time.After(d)
	}
	ch := make(chan time.Time, 1)
	key := *(*unsafe.Pointer)(unsafe.Pointer(&ch))
	at := nowNanos() + int64(d)
	ok := addTimer(at, key, func() {
		select {
		case ch <- time.Unix(0, at).UTC():
		default:
		}
		Wake(key)
		Wake(unsafe.Pointer(&selectAddr))
	})
	if !ok {
		abort("harness-limit", "too many pending timers")
	}
	return ch
}

//go:norace
func nowNanos() int64 { return simNow }
