package simrt

import (
	"iter"
	"unsafe"
)

// Virtual channel operations for instrumented library code. A task that would
// block on a channel marks itself blocked and hands the turn to the scheduler
// (parking in the Go runtime would hang a serialised execution).
//
// Buffered channels keep using the real channel as storage (so len/cap and the
// race detector's own channel edges stay real); an operation is only issued
// when it cannot block. Unbuffered channels are modelled as a rendezvous queue
// with the memory-model edges issued explicitly.
//
// select statements are not virtualised (listed as unseamed by the
// instrumenter); a select that has to wait ends in the watchdog (exit 2).

const (
	maxVChans   = 256
	maxVPending = 64
)

type vitem struct {
	v     any
	taken bool
	used  bool
}

type vchan struct {
	key    unsafe.Pointer
	closed bool
	items  [maxVPending]vitem
	head   int
	n      int
	recvs  int // receivers currently waiting (unbuffered)
}

var (
	vchans  [maxVChans]vchan
	nvchans int
)

//go:norace
func resetChans() {
	for i := 0; i < nvchans; i++ {
		vchans[i] = vchan{}
	}
	nvchans = 0
}

//go:norace
func vchanOf(key unsafe.Pointer) *vchan {
	for i := 0; i < nvchans; i++ {
		if vchans[i].key == key {
			return &vchans[i]
		}
	}
	if nvchans >= maxVChans {
		abort("harness-limit", "more than maxVChans channels in one run")
	}
	c := &vchans[nvchans]
	nvchans++
	c.key = key
	return c
}

//go:norace
func (c *vchan) isClosed() bool { return c.closed }

//go:norace
func (c *vchan) setClosed() { c.closed = true }

//go:norace
func (c *vchan) push(v any) *vitem {
	if c.n >= maxVPending {
		abort("harness-limit", "too many pending senders on one unbuffered channel")
	}
	it := &c.items[(c.head+c.n)%maxVPending]
	*it = vitem{v: v, used: true}
	c.n++
	return it
}

//go:norace
func (c *vchan) pop() (*vitem, bool) {
	if c.n == 0 {
		return nil, false
	}
	it := &c.items[c.head]
	c.head = (c.head + 1) % maxVPending
	c.n--
	it.taken = true
	return it, true
}

//go:norace
func (it *vitem) isTaken() bool { return it.taken }

//go:norace
func (it *vitem) value() any { return it.v }

func chanKey[T any](ch chan T) unsafe.Pointer { return *(*unsafe.Pointer)(unsafe.Pointer(&ch)) }

//go:norace
func noteChan() {
	if on {
		stats.ChanOps++
	}
}

// Send replaces `ch <- v`.
func Send[T any](ch chan<- T, v T) {
	if !Active() {
		ch <- v
		return
	}
	noteChan()
	if ch == nil {
		for {
			Block(unsafe.Pointer(&vchans)) // nil channel: blocks forever
		}
	}
	key := *(*unsafe.Pointer)(unsafe.Pointer(&ch))
	c := vchanOf(key)
	if cap(ch) > 0 {
		for len(ch) >= cap(ch) && !c.isClosed() {
			Block(key)
		}
		ch <- v // cannot block: there is room (or it is closed and panics, as it must)
		Wake(key)
		return
	}
	if c.isClosed() {
		panic("send on closed channel")
	}
	RaceRelease(key)
	it := c.push(v)
	Wake(key)
	for !it.isTaken() {
		if c.isClosed() {
			panic("send on closed channel")
		}
		Block(unsafe.Pointer(it))
	}
	RaceAcquire(unsafe.Pointer(it))
}

func recv[T any](ch <-chan T) (T, bool) {
	if !Active() {
		v, ok := <-ch
		return v, ok
	}
	noteChan()
	if ch == nil {
		for {
			Block(unsafe.Pointer(&vchans))
		}
	}
	key := *(*unsafe.Pointer)(unsafe.Pointer(&ch))
	c := vchanOf(key)
	if cap(ch) > 0 {
		for len(ch) == 0 && !c.isClosed() {
			Block(key)
		}
		v, ok := <-ch // cannot block: data is buffered, or the channel is closed
		Wake(key)
		return v, ok
	}
	for {
		if it, ok := c.pop(); ok {
			RaceAcquire(key)
			v, _ := it.value().(T)
			RaceRelease(unsafe.Pointer(it))
			Wake(unsafe.Pointer(it))
			return v, true
		}
		if c.isClosed() {
			RaceAcquire(key)
			var zero T
			return zero, false
		}
		Block(key)
	}
}

// Recv replaces `<-ch` in single-value context.
func Recv[T any](ch <-chan T) T {
	v, _ := recv(ch)
	return v
}

// Recv2 replaces `<-ch` in `v, ok := <-ch` context.
func Recv2[T any](ch <-chan T) (T, bool) { return recv(ch) }

// Close replaces the builtin close for channels.
func Close[T any](ch chan<- T) {
	if !Active() {
		close(ch)
		return
	}
	noteChan()
	key := *(*unsafe.Pointer)(unsafe.Pointer(&ch))
	c := vchanOf(key)
	if cap(ch) == 0 {
		if c.isClosed() {
			panic("close of closed channel")
		}
		RaceRelease(key)
	}
	c.setClosed()
	if cap(ch) > 0 {
		close(ch)
	}
	Wake(key)
	// senders parked on their own item must notice the close
	wakeAllItems(c)
}

//go:norace
func wakeAllItems(c *vchan) {
	for i := 0; i < maxVPending; i++ {
		if c.items[i].used && !c.items[i].taken {
			Wake(unsafe.Pointer(&c.items[i]))
		}
	}
}

// ChanIter replaces `range ch`.
func ChanIter[T any](ch <-chan T) iter.Seq[T] {
	return func(yield func(T) bool) {
		for {
			v, ok := recv(ch)
			if !ok {
				return
			}
			if !yield(v) {
				return
			}
		}
	}
}
