package simrt

import (
	"reflect"
	"unsafe"
)

// ReflectSelect replaces reflect.Select in instrumented library code: the same
// simulated select as the statement form, over channels known only as
// reflect.Values.
func ReflectSelect(cases []reflect.SelectCase) (int, reflect.Value, bool) {
	if !Active() {
		return reflect.Select(cases)
	}
	sc := make([]SelCase, 0, len(cases))
	idx := make([]int, 0, len(cases))
	hasDefault, defIdx := false, -1
	for i := range cases {
		c := cases[i]
		switch c.Dir {
		case reflect.SelectDefault:
			hasDefault, defIdx = true, i
			continue
		case reflect.SelectRecv:
			if !c.Chan.IsValid() || c.Chan.IsNil() {
				sc = append(sc, SelCase{}) // nil channel: never ready
			} else {
				rv := c.Chan
				sc = append(sc, SelCase{key: rv.UnsafePointer(), cap: rv.Cap(), len: func() int { return rv.Len() }, rv: rv,
					shut: func(vc *vchan) bool { return closedNowRV(vc, rv) }})
			}
		case reflect.SelectSend:
			if !c.Chan.IsValid() || c.Chan.IsNil() {
				sc = append(sc, SelCase{send: true})
			} else {
				rv := c.Chan
				var val any
				if c.Send.IsValid() {
					val = c.Send.Interface()
				}
				sc = append(sc, SelCase{key: rv.UnsafePointer(), send: true, cap: rv.Cap(), len: func() int { return rv.Len() }, rv: rv, val: val})
			}
		}
		idx = append(idx, i)
	}
	s := SelectReady(hasDefault, sc...)
	if s.I < 0 {
		return defIdx, reflect.Value{}, false
	}
	i := idx[s.I]
	c := cases[i]
	if c.Dir == reflect.SelectSend {
		if !s.done {
			sendRV(c.Chan, c.Send)
		}
		return i, reflect.Value{}, false
	}
	if s.done {
		return i, anyToRV(s.gotV, c.Chan.Type().Elem()), s.ok
	}
	v, ok := recvRV(c.Chan)
	return i, v, ok
}

func anyToRV(x any, t reflect.Type) reflect.Value {
	if x == nil {
		return reflect.Zero(t)
	}
	v := reflect.ValueOf(x)
	if v.Type() != t && v.Type().ConvertibleTo(t) {
		v = v.Convert(t)
	}
	return v
}

func closedNowRV(c *vchan, rv reflect.Value) bool {
	if c.isClosed() {
		return true
	}
	if rv.Len() > 0 {
		return false
	}
	x, ok := rv.TryRecv()
	if !x.IsValid() {
		return false // would block: open
	}
	if ok {
		abort("harness-limit", "a value arrived on a virtualised channel from outside the simulation")
	}
	c.setClosed()
	return true
}

// recvRV is recv for a channel known as a reflect.Value.
func recvRV(rv reflect.Value) (reflect.Value, bool) {
	noteChan()
	key := rv.UnsafePointer()
	c := vchanOf(key)
	et := rv.Type().Elem()
	if rv.Cap() > 0 {
		for rv.Len() == 0 && !closedNowRV(c, rv) {
			if timerFault() && fireTimerFor(key) {
				continue
			}
			Block(key)
		}
		v, ok := rv.Recv() // cannot block: data is buffered, or the channel is closed
		Wake(key)
		Wake(unsafe.Pointer(&selectAddr))
		return v, ok
	}
	for {
		if it, ok := c.pop(); ok {
			RaceAcquire(unsafe.Pointer(&it.taken))
			v := anyToRV(it.value(), et)
			RaceRelease(unsafe.Pointer(it))
			Wake(unsafe.Pointer(it))
			return v, true
		}
		if closedNowRV(c, rv) {
			RaceAcquire(key)
			return reflect.Zero(et), false
		}
		if w, i := findSelPartner(key, true, nil); w != nil {
			v := anyToRV(w.caseVal(i), et)
			handTo(w, i, nil)
			return v, true
		}
		c.addRecv(1)
		Wake(unsafe.Pointer(&selectAddr))
		func() {
			defer c.addRecv(-1)
			Block(key)
		}()
	}
}

// sendRV is Send for a channel known as a reflect.Value.
func sendRV(rv, val reflect.Value) {
	noteChan()
	key := rv.UnsafePointer()
	c := vchanOf(key)
	if rv.Cap() > 0 {
		for rv.Len() >= rv.Cap() && !c.isClosed() {
			Block(key)
		}
		rv.Send(val) // cannot block: there is room (or it is closed and panics, as it must)
		Wake(key)
		Wake(unsafe.Pointer(&selectAddr))
		return
	}
	if c.isClosed() {
		panic("send on closed channel")
	}
	var x any
	if val.IsValid() {
		x = val.Interface()
	}
	if w, i := findSelPartner(key, false, nil); w != nil {
		handTo(w, i, x)
		return
	}
	it := c.push(x)
	RaceRelease(unsafe.Pointer(&it.taken))
	Wake(key)
	Wake(unsafe.Pointer(&selectAddr))
	for !it.isTaken() {
		if c.isClosed() {
			panic("send on closed channel")
		}
		Block(unsafe.Pointer(it))
	}
	RaceAcquire(unsafe.Pointer(it))
}

// RVRecv, RVSend and RVClose replace the channel methods of reflect.Value
// (x.Recv(), x.Send(v), x.Close()) in instrumented library code.
func RVRecv(rv reflect.Value) (reflect.Value, bool) {
	if !Active() {
		return rv.Recv()
	}
	if rv.IsNil() {
		for {
			Block(unsafe.Pointer(&vchans)) // nil channel: blocks forever
		}
	}
	return recvRV(rv)
}

func RVSend(rv, val reflect.Value) {
	if !Active() {
		rv.Send(val)
		return
	}
	if rv.IsNil() {
		for {
			Block(unsafe.Pointer(&vchans))
		}
	}
	sendRV(rv, val)
}

func RVClose(rv reflect.Value) {
	if !Active() {
		rv.Close()
		return
	}
	noteChan()
	key := rv.UnsafePointer()
	c := vchanOf(key)
	if rv.Cap() == 0 {
		if c.isClosed() {
			panic("close of closed channel")
		}
		RaceRelease(key)
	}
	c.setClosed()
	rv.Close()
	Wake(key)
	Wake(unsafe.Pointer(&selectAddr))
	wakeAllItems(c)
}
