// Package simrt is the deterministic scheduler that owns "which caller thread
// executes the next statement of library code". It is copied into a scratch
// copy of the repository at check time; the instrumenter inserts simrt.Y(site)
// before every statement of library code.
//
// Everything here that touches scheduler state is //go:norace and uses plain
// words only: no channel, mutex, atomic or map. The hand-off between tasks is
// therefore invisible to the race detector, which keeps treating the tasks as
// concurrent although exactly one of them runs at any time (GOMAXPROCS=1).
package simrt

import (
	"os"
	"runtime"
	"sync"
	"sync/atomic"
	"time"
	"unsafe"
)

const (
	MaxTasks    = 256
	libBase     = 17 // task numbers of goroutines started by the library begin here (clients: 1..16)
	maxSurvive  = 32 // more library goroutines than this alive at the end of a run are ended, not kept
	postFireMax = 8  // timer firings allowed once every client task has finished
	MaxSwitches = 1 << 16
	MaxObjs     = 4
)

const (
	stUnused uint8 = iota
	stRunnable
	stBlocked
	stDone
)

// Policies.
const (
	PolRandom   = "random"   // switch with probability Num/Den at every yield
	PolPCT      = "pct"      // random priorities, D priority change points
	PolRTC      = "rtc"      // run to completion, random task order
	PolOpB      = "opb"      // switch only at operation boundaries
	PolExplicit = "explicit" // replay an explicit switch list
	PolNap      = "nap"      // with probability Num/Den a task stalls where it is for 8..1024 steps while the others run
)

// Switch is one recorded scheduling decision: while task Task was in its
// operation Op at its Lstep-th yield inside that operation, the turn went to To.
// Kind: 0 preempt, 1 finish, 2 block.
type Switch struct {
	Task  int32  `json:"t"`
	Op    int32  `json:"o"`
	Lstep uint32 `json:"l"`
	To    int32  `json:"to"`
	Kind  uint8  `json:"k"`
	Site  uint32 `json:"s"`
}

// Sched is the schedule part of a run spec.
type Sched struct {
	Policy   string   `json:"policy"`
	Seed     uint64   `json:"seed"`
	Num      uint32   `json:"num,omitempty"`
	Den      uint32   `json:"den,omitempty"`
	D        int      `json:"d,omitempty"`
	EstSteps uint64   `json:"est,omitempty"`
	Affine   bool     `json:"affine,omitempty"`
	Hot      bool     `json:"hot,omitempty"` // nap policy: stall preferentially right before atomic / sync operations
	Explicit []Switch `json:"explicit,omitempty"`
}

// Faults configures the environment perturbations other than preemption.
type Faults struct {
	MapPerm   bool   `json:"map_perm,omitempty"`   // permute map iteration order
	ClockJump bool   `json:"clock_jump,omitempty"` // time.Now jumps by seeded amounts
	ClockBase int64  `json:"clock_base,omitempty"` // unix nanos of simulated epoch
	PoolDrop  uint32 `json:"pool_drop,omitempty"`  // per-mille: virtual Pool.Put discards
	PoolSteal bool   `json:"pool_steal,omitempty"` // virtual Pool.Get prefers another task's object
	GCPoints  int    `json:"gc_points,omitempty"`  // garbage collections (with finalizers drained) forced at seeded steps
	Seed      uint64 `json:"seed,omitempty"`
}

type task struct {
	state     uint8
	client    bool
	blockedOn uintptr
	op        int32
	lstep     uint32
	inOp      bool
	prio      int32
	objs      [MaxObjs]int32
	nobjs     int
	nextObjs  [MaxObjs]int32
	nnext     int
	lastSite  uint32
	expl      []Switch // explicit preemptions for this task, in order
	explPos   int
	explBlk   []Switch // explicit successors on block, in order
	blkPos    int
	explFin   int32 // explicit successor on finish (0 = none)
	opSteps   uint64
	napUntil  uint64
	gen       uint64
	// persist: a goroutine the library started that is still alive (waiting or
	// runnable) when its run ends normally. It is not ended: it sleeps (parked)
	// until a later run of the process schedules it, as the real goroutine would
	// simply still be there for later calls.
	persist bool
	parked  bool
}

// Stats is what one simulated run measured.
type Stats struct {
	Steps           uint64
	Switches        uint64
	Preempts        uint64
	SameObjPreempts uint64
	OpBoundary      uint64
	LockContend     uint64
	MapPerms        uint64
	ClockReads      uint64
	ClockJumps      uint64
	PoolDrops       uint64
	PoolSteals      uint64
	PoolGets        uint64
	RandDraws       uint64
	GoSpawns        uint64
	SyncOps         uint64
	StarveGuards    uint64
	Naps            uint64
	ChanOps         uint64
	LeakedTasks     uint64
	Selects         uint64
	TimersFired     uint64
	TimersMade      uint64
	Survivors       uint64
	ForcedGCs       uint64
	HotNaps         uint64
	Fingerprint     uint64
	PairFP          []uint64 // hashes of (preempted site, resumed site)
	Truncated       bool
	Aborted         string
	AbortDetail     string
	MaxOpSteps      uint64
}

var (
	on       bool
	aborted  bool
	allDone  bool
	cur      int32
	ntasks   int32
	nclients int32
	// nsurvivors: library goroutines of earlier runs taking part in this one
	nsurvivors int32
	postFires  int32
	tasks      [MaxTasks]task
	stepN      uint64
	sched      Sched
	faults     Faults
	rng        rngState
	frng       rngState
	stats      Stats
	switches   []Switch
	pairs      []uint64
	changeAt   [8]uint64
	nchange    int
	lowPrio    int32
	runGen     uint64

	clientsLeft int32
	graceSteps  uint64

	gcPause bool
	gcAt    [4]uint64
	ngc     int

	opBudget   uint64 = 4_000_000
	softBudget uint64 = 100_000

	// Site coverage (indexed by site id); sized by SetSites.
	SiteHits    []uint32
	SitePreempt []uint32

	joinWG sync.WaitGroup
)

type abortSentinel struct{}

// IsAbort reports whether a recovered panic value is the scheduler's abort
// sentinel (deadlock / budget), as opposed to a panic of the code under test.
func IsAbort(v any) bool { _, ok := v.(abortSentinel); return ok }

// endTask ends the calling task's goroutine when its run is over or aborted.
// It is runtime.Goexit, not a panic: library code that recovers from panics
// (a helper that turns a panic into an error, an actor that survives its
// evaluator) would swallow a sentinel panic and go on running library code
// outside the simulator's control, concurrently with the next run. Deferred
// functions still run; recover() sees nothing.
func endTask() { runtime.Goexit() }

var (
	hotList []uint32 // filled by the generated hot_gen.go
	hotSite []bool
)

//go:norace
func SetSites(n int) {
	SiteHits = make([]uint32, n+1)
	SitePreempt = make([]uint32, n+1)
	hotSite = make([]bool, n+1)
	for _, id := range hotList {
		if int(id) < len(hotSite) {
			hotSite[id] = true
		}
	}
}

//go:norace
func SetOpBudget(n uint64) { opBudget = n }

// Active reports whether a simulated run is in progress.
//
//go:norace
func Active() bool { return on && !aborted }

// Cur returns the id of the task holding the turn.
//
//go:norace
func Cur() int32 { return cur }

//go:norace
func Aborted() bool { return aborted }

//go:norace
func StepNow() uint64 { return stepN }

// Y is the yield point inserted before every statement of library code.
//
//go:norace
func Y(site uint32) {
	if !on {
		return
	}
	if aborted || allDone || gcPause {
		// (allDone: a task that is being ended runs its deferred library code
		// without the turn; those statements are not steps of the run)
		return
	}
	stepN++
	for k := 0; k < ngc; k++ {
		if gcAt[k] == stepN {
			forceGC()
		}
	}
	if nvtimers > 0 && stepN&255 == 0 && faults.ClockJump && frng.next()%16 == 0 {
		// clock fault: time passes while the tasks are busy, and the timer due
		// first (a deadline, an expiry callback, a tick) fires right here, in the
		// middle of whatever the current task is doing
		stats.ClockJumps++
		fireEarliestTimer()
	}
	if int(site) < len(SiteHits) {
		SiteHits[site]++
	}
	t := &tasks[cur]
	t.lstep++
	t.opSteps++
	t.lastSite = site
	if clientsLeft == 0 {
		// only goroutines the library itself started are still running; let them
		// finish within a grace budget, then end the run (a background worker is
		// not a C19 matter)
		graceSteps++
		if graceSteps > 50_000 {
			stats.LeakedTasks++
			markSurvivors()
			allDone = true
			if t.persist {
				waitTurn(cur) // parked; goes on from here in a later run
				return
			}
			endTask()
		}
		return
	}
	if t.opSteps > softBudget {
		// (the hard budget is for client operations: a library goroutine that
		// lives for the whole process has no operation to finish)
		if debugStall && t.opSteps == 1_000_000 {
			println("STALL cur", cur, "site", site, "ntasks", ntasks, "policy", sched.Policy, "lease", leaseTask, leaseLeft, "rr", rrCursor)
			for i := int32(1); i < ntasks; i++ {
				if tasks[i].state != stUnused {
					println("  task", i, "state", tasks[i].state, "client", tasks[i].client, "blockedOn", tasks[i].blockedOn, "persist", tasks[i].persist, "site", tasks[i].lastSite, "opSteps", tasks[i].opSteps)
				}
			}
		}
		if t.opSteps > opBudget && t.client {
			abort(stallKind("no-progress"), stallWhy()+noProgressDetail(t, site))
		}
		// Starvation guard: an operation that has run unusually long may be
		// waiting (legitimately) for another task that the current policy never
		// schedules; from here on, hand the turn round-robin every 64 steps so
		// that only a wait nobody can ever satisfy reaches the hard budget.
		if t.opSteps%64 == 0 {
			// strictly round-robin by task number, whatever the policy: with
			// pick() two busy-waiting tasks of high priority hand the turn to each
			// other for ever while the task they wait for never runs
			if to := rrNext(rrCursor, cur); to >= 0 {
				stats.StarveGuards++
				// the task that gets the turn keeps it for a while whatever the
				// policy says (a priority policy would hand it straight back)
				rrCursor, leaseTask, leaseLeft = to, to, 512
				preempt(t, site, to, 0)
				return
			}
		}
	}
	if leaseLeft > 0 {
		if cur == leaseTask {
			leaseLeft--
			return
		}
		leaseLeft = 0
	}
	to := decide(t, site, false)
	if to >= 0 && to != cur {
		preempt(t, site, to, 0)
	}
}

// rrNext returns the next runnable task after me in cyclic task order.
//
//go:norace
func rrNext(after, me int32) int32 {
	n := ntasks - 1
	if after < 1 || after > n {
		after = me
	}
	for k := int32(1); k <= n; k++ {
		i := (after-1+k)%n + 1
		if i != me && tasks[i].state == stRunnable {
			return i
		}
	}
	return -1
}

// rrCursor is the task the starvation guard handed the turn to last; leaseTask
// may run leaseLeft more steps without the policy being asked.
var (
	rrCursor  int32
	leaseTask int32
	leaseLeft int32
)

//go:norace
func preempt(t *task, site uint32, to int32, kind uint8) {
	stats.Preempts++
	if int(site) < len(SitePreempt) {
		SitePreempt[site]++
	}
	if t.inOp && sharesObjWithOther(cur) {
		stats.SameObjPreempts++
	}
	record(t, site, to, kind)
	me := cur
	cur = to
	waitTurn(me)
	// resumed: record (preempted site -> site where the other side stopped) pair
	notePair(site, tasks[me].lastSite)
}

//go:norace
func notePair(a, b uint32) {
	if len(pairs) < cap(pairs) {
		pairs = append(pairs, mix(uint64(a)<<32|uint64(b)))
	}
}

//go:norace
func record(t *task, site uint32, to int32, kind uint8) {
	stats.Switches++
	stats.Fingerprint = mix(stats.Fingerprint ^ (uint64(cur)<<40 | uint64(to)<<32 | uint64(site)))
	if len(switches) < cap(switches) {
		switches = append(switches, Switch{Task: cur, Op: t.op, Lstep: t.lstep, To: to, Kind: kind, Site: site})
	} else {
		stats.Truncated = true
	}
}

//go:norace
func waitTurn(me int32) {
	t := &tasks[me]
	for {
		if t.persist {
			// the run this task belonged to is over and it was kept: sleep until
			// a later run takes it over (reset clears persist)
			if !t.parked {
				t.parked = true
				joinWG.Done()
			}
			time.Sleep(100 * time.Microsecond)
			continue
		}
		if aborted || allDone || runGen != t.gen {
			endTask()
		}
		if cur == me {
			return
		}
		runtime.Gosched()
	}
}

// markSurvivors is called when a run ends normally: the library goroutines that
// are still alive are kept for the following runs of the process, unless there
// are implausibly many (goroutines leaked by every call), which are ended as
// before.
//
//go:norace
func markSurvivors() {
	n := 0
	for i := int32(libBase); i < ntasks; i++ {
		if !tasks[i].client && (tasks[i].state == stRunnable || tasks[i].state == stBlocked) {
			n++
		}
	}
	if n == 0 || n > maxSurvive {
		return
	}
	for i := int32(libBase); i < ntasks; i++ {
		if !tasks[i].client && (tasks[i].state == stRunnable || tasks[i].state == stBlocked) {
			tasks[i].persist = true
			stats.Survivors++
		}
	}
}

// morePostFires bounds the timer firings after the last client task finished (a
// ticker-driven janitor would otherwise keep every run going until the ticker
// bound).
//
//go:norace
func morePostFires() bool {
	if clientsLeft > 0 {
		return true
	}
	if postFires >= postFireMax {
		return false
	}
	postFires++
	return true
}

//go:norace
func abort(class, detail string) {
	if !aborted {
		aborted = true
		stats.Aborted = class
		stats.AbortDetail = detail
	}
	endTask()
}

//go:norace
func sharesObjWithOther(me int32) bool {
	t := &tasks[me]
	for i := int32(1); i < ntasks; i++ {
		if i == me {
			continue
		}
		o := &tasks[i]
		if o.state == stDone || o.state == stUnused || !o.inOp {
			continue
		}
		for a := 0; a < t.nobjs; a++ {
			for b := 0; b < o.nobjs; b++ {
				if t.objs[a] == o.objs[b] {
					return true
				}
			}
		}
	}
	return false
}

// touches reports whether task i's current (if mid-op) or next operation shares
// an object with task me's current operation.
//
//go:norace
func touches(me, i int32) bool {
	t := &tasks[me]
	o := &tasks[i]
	objs, n := o.nextObjs[:], o.nnext
	if o.inOp {
		objs, n = o.objs[:], o.nobjs
	}
	for a := 0; a < t.nobjs; a++ {
		for b := 0; b < n; b++ {
			if t.objs[a] == objs[b] {
				return true
			}
		}
	}
	return false
}

// pick chooses a runnable task other than `not` (pass -1 to allow any).
// Returns -1 if none.
//
//go:norace
func pick(not int32) int32 {
	var cand [MaxTasks]int32
	n := 0
	var sleeper int32 = -1
	for i := int32(1); i < ntasks; i++ {
		if i != not && tasks[i].state == stRunnable {
			if tasks[i].napUntil > stepN {
				if sleeper < 0 || tasks[i].napUntil < tasks[sleeper].napUntil {
					sleeper = i
				}
				continue
			}
			cand[n] = i
			n++
		}
	}
	if n == 0 && sleeper >= 0 {
		// everybody else is stalled: the one due first wakes up early
		tasks[sleeper].napUntil = 0
		cand[0] = sleeper
		n = 1
	}
	if n == 0 {
		return -1
	}
	if sched.Policy == PolPCT {
		best := cand[0]
		for k := 1; k < n; k++ {
			if tasks[cand[k]].prio > tasks[best].prio {
				best = cand[k]
			}
		}
		return best
	}
	if sched.Policy == PolExplicit {
		return cand[0]
	}
	if sched.Affine && not >= 0 && rng.next()%4 != 0 {
		var aff [MaxTasks]int32
		m := 0
		for k := 0; k < n; k++ {
			if touches(not, cand[k]) {
				aff[m] = cand[k]
				m++
			}
		}
		if m > 0 {
			return aff[rng.next()%uint64(m)]
		}
	}
	return cand[rng.next()%uint64(n)]
}

// decide returns the task to switch to, or -1 to continue.
//
//go:norace
func decide(t *task, site uint32, boundary bool) int32 {
	switch sched.Policy {
	case PolRandom:
		if sched.Den == 0 || uint32(rng.next()%uint64(sched.Den)) >= sched.Num {
			return -1
		}
		return pick(cur)
	case PolOpB:
		if !boundary {
			return -1
		}
		if sched.Den == 0 || uint32(rng.next()%uint64(sched.Den)) >= sched.Num {
			return -1
		}
		return pick(cur)
	case PolPCT:
		for k := 0; k < nchange; k++ {
			if changeAt[k] == stepN {
				lowPrio--
				t.prio = lowPrio
			}
		}
		best := pick(-1)
		if best >= 0 && best != cur && tasks[best].prio > t.prio {
			return best
		}
		return -1
	case PolRTC:
		return -1
	case PolNap:
		if sched.Hot && int(site) < len(hotSite) && hotSite[site] {
			// right before an atomic / sync operation: windows in lock-free and
			// lock-based code open and close here, so stall here often
			if rng.next()%3 != 0 {
				return -1
			}
			stats.HotNaps++
		} else if sched.Den == 0 || uint32(rng.next()%uint64(sched.Den)) >= sched.Num {
			return -1
		}
		to := pick(cur)
		if to >= 0 {
			t.napUntil = stepN + (8 << (rng.next() % 8))
			stats.Naps++
		}
		return to
	case PolExplicit:
		for t.explPos < len(t.expl) {
			e := &t.expl[t.explPos]
			if e.Op < t.op || (e.Op == t.op && e.Lstep < t.lstep) {
				t.explPos++ // stale entry (program was reduced); skip
				continue
			}
			if e.Op == t.op && e.Lstep == t.lstep {
				t.explPos++
				to := e.To
				if to <= 0 || to >= ntasks || tasks[to].state != stRunnable {
					to = pick(cur)
				}
				return to
			}
			break
		}
		return -1
	}
	return -1
}

// explicitNext finds the recorded successor for a finish (kind 1) or block
// (kind 2) event of task t, falling back to the lowest runnable id.
//
//go:norace
func explicitNext(t *task, kind uint8) int32 {
	var to int32
	if kind == 1 {
		to = t.explFin
	} else if t.blkPos < len(t.explBlk) {
		to = t.explBlk[t.blkPos].To
		t.blkPos++
	}
	if to > 0 && to < ntasks && tasks[to].state == stRunnable {
		return to
	}
	return pick(cur)
}

// OpBegin is called by the harness when the current task starts operation op
// on the given shared objects.
//
//go:norace
func OpBegin(op int32, objs []int32, next []int32) {
	if !on || aborted {
		return
	}
	t := &tasks[cur]
	t.op = op
	t.lstep = 0
	t.opSteps = 0
	t.nobjs, t.nnext = 0, 0
	for i := 0; i < len(objs) && i < MaxObjs; i++ {
		t.objs[i] = objs[i]
		t.nobjs++
	}
	for i := 0; i < len(next) && i < MaxObjs; i++ {
		t.nextObjs[i] = next[i]
		t.nnext++
	}
	// boundary yield before entering the operation
	stepN++
	stats.OpBoundary++
	to := decide(t, 0, true)
	if to >= 0 && to != cur {
		preempt(t, 0, to, 0)
	}
	t.inOp = true
}

// ResetOpSteps restarts the per-operation step budget of the current task
// (used by the harness between the items of a sequential phase).
//
//go:norace
func ResetOpSteps() {
	if on && !aborted {
		tasks[cur].opSteps = 0
	}
}

//go:norace
func OpEnd() {
	if !on || aborted {
		return
	}
	t := &tasks[cur]
	t.inOp = false
	if t.opSteps > stats.MaxOpSteps {
		stats.MaxOpSteps = t.opSteps
	}
}

// Block parks the current task until Wake(addr); called by simsync when a
// primitive cannot be acquired. Detects deadlock exactly.
//
//go:norace
func Block(addr unsafe.Pointer) {
	if !on {
		// Outside a simulated run a sim primitive that cannot be acquired would
		// need a real blocking wait; yield the processor instead.
		runtime.Gosched()
		return
	}
	if aborted {
		endTask()
	}
	t := &tasks[cur]
	t.state = stBlocked
	t.blockedOn = uintptr(addr)
	stats.LockContend++
	var to int32
	if sched.Policy == PolExplicit {
		to = explicitNext(t, 2)
	} else {
		to = pick(cur)
	}
	for to < 0 && morePostFires() && fireEarliestTimer() {
		// the clock jumped to the next timer; somebody (possibly this task) may
		// be runnable again
		if t.state == stRunnable {
			return
		}
		to = pick(cur)
	}
	if to < 0 {
		if clientsPending() {
			abort(stallKind("deadlock"), stallWhy()+deadlockDetail())
		}
		// only library-spawned goroutines are left and none can run: they are
		// leaked, which C19 does not speak about. End the run normally.
		stats.LeakedTasks++
		markSurvivors()
		allDone = true
		if t.persist {
			waitTurn(cur) // parked while blocked; resumes when a later run wakes and schedules it
			return
		}
		endTask()
	}
	record(t, t.lastSite, to, 2)
	me := cur
	cur = to
	waitTurn(me)
}

// clientsPending reports whether any client task has not finished.
//
//go:norace
func clientsPending() bool {
	for i := int32(1); i < ntasks; i++ {
		if tasks[i].client && tasks[i].state != stDone {
			return true
		}
	}
	return false
}

//go:norace
func noProgressDetail(t *task, site uint32) string {
	b := make([]byte, 0, 64)
	b = append(b, "task "...)
	b = appendUint(b, uint64(cur))
	b = append(b, " op "...)
	b = appendUint(b, uint64(t.op))
	b = append(b, " still running at site "...)
	b = appendUint(b, uint64(site))
	return string(b)
}

//go:norace
func deadlockDetail() string {
	// Built without fmt to stay race-detector-invisible and allocation-light.
	b := make([]byte, 0, 256)
	for i := int32(1); i < ntasks; i++ {
		if tasks[i].state == stBlocked {
			b = append(b, "task "...)
			b = appendUint(b, uint64(i))
			b = append(b, " blocked at site "...)
			b = appendUint(b, uint64(tasks[i].lastSite))
			b = append(b, " op "...)
			b = appendUint(b, uint64(tasks[i].op))
			b = append(b, "; "...)
		}
	}
	return string(b)
}

//go:norace
func appendUint(b []byte, v uint64) []byte {
	if v == 0 {
		return append(b, '0')
	}
	var tmp [20]byte
	i := len(tmp)
	for v > 0 {
		i--
		tmp[i] = byte('0' + v%10)
		v /= 10
	}
	return append(b, tmp[i:]...)
}

// Wake makes every task blocked on addr runnable again.
//
//go:norace
func Wake(addr unsafe.Pointer) {
	if !on {
		return
	}
	a := uintptr(addr)
	for i := int32(1); i < ntasks; i++ {
		if tasks[i].state == stBlocked && tasks[i].blockedOn == a {
			tasks[i].state = stRunnable
			tasks[i].blockedOn = 0
		}
	}
}

//go:norace
func NoteSync() {
	if on {
		stats.SyncOps++
	}
}

//go:norace
func finish(me int32) {
	t := &tasks[me]
	if t.state != stDone && t.client {
		clientsLeft--
	}
	if (aborted || allDone) && !t.client && t.state != stDone {
		// a goroutine the library started is still alive at the end of the run;
		// the simulator ends it here (it cannot take turns outside a run), which
		// the real program would not do
		reapedTotal++
	}
	t.state = stDone
	t.inOp = false
	if aborted || allDone {
		return
	}
	var to int32
	if sched.Policy == PolExplicit {
		to = explicitNext(t, 1)
	} else {
		to = pick(me)
	}
	for to < 0 && morePostFires() && fireEarliestTimer() {
		to = pick(me)
	}
	if to < 0 {
		// nobody runnable: either all done or deadlock among the rest
		blocked := false
		for i := int32(1); i < ntasks; i++ {
			if tasks[i].state == stBlocked {
				if tasks[i].client {
					blocked = true
				} else {
					stats.LeakedTasks++
				}
			}
		}
		if blocked {
			aborted = true
			stats.Aborted = stallKind("deadlock")
			stats.AbortDetail = stallWhy() + deadlockDetail()
			return
		}
		markSurvivors()
		allDone = true
		return
	}
	record(t, 0, to, 1)
	cur = to
}

func runTask(id int32, body func()) {
	defer joinWG.Done()
	defer func() {
		if r := recover(); r != nil {
			if !IsAbort(r) {
				// a panic escaping a task body is a harness bug; surface it
				markEscaped(r)
			}
		}
		finish(id)
	}()
	waitTurn(id)
	body()
}

var foreignLive atomic.Int64

// ForeignLive is the number of goroutines started by library code outside a
// simulated run that are still alive.
func ForeignLive() int64 { return foreignLive.Load() }

var escaped any

//go:norace
func markEscaped(r any) {
	if escaped == nil {
		escaped = r
	}
	if !aborted {
		aborted = true
		stats.Aborted = "escaped-panic"
	}
}

// Escaped returns a panic value that escaped a task body (harness bug), if any.
func Escaped() any { return escaped }

// Go replaces the `go` statement in instrumented library code.
func Go(f func()) {
	if !Active() {
		switch procMode {
		case 1:
			adoptOutside(f)
		default:
			// real-goroutine engine (and anything else outside the simulator)
			foreignLive.Add(1)
			go func() {
				defer foreignLive.Add(-1)
				f()
			}()
		}
		return
	}
	id := spawn(false)
	if id < 0 {
		abort("harness-limit", "more than MaxTasks live tasks")
	}
	joinWG.Add(1)
	go runTask(id, f)
}

// procMode says what a goroutine started outside a simulated run becomes: in
// the simulator process (VSIM_MODE=run, set by the checker) a parked task that
// the next run takes over, exactly like a library goroutine that outlived an
// earlier run; anywhere else (the real-goroutine engine, the repository's own
// tests on the instrumented copy) a real goroutine. Read from the environment
// because package initialisation of the library runs before main.
var debugStall = os.Getenv("VSIM_DEBUG_STALL") != ""

var procMode = func() int {
	if os.Getenv("VSIM_MODE") == "run" {
		return 1
	}
	return 2
}()

// StartPending is kept for the harness's main; the mode is known from the
// environment by the time any library package initialises.
func StartPending(simulator bool) {}

// adoptOutside registers f as a parked library task (persist, parked): it starts
// executing when a run schedules it.
func adoptOutside(f func()) {
	id := spawnParked()
	if id < 0 {
		// no room: fall back to a real goroutine, which a run will refuse
		foreignLive.Add(1)
		go func() {
			defer foreignLive.Add(-1)
			f()
		}()
		return
	}
	go runTask(id, f)
}

//go:norace
func spawnParked() int32 {
	id := spawn(false)
	if id >= 0 {
		tasks[id].persist = true
		tasks[id].parked = true
	}
	return id
}

//go:norace
func spawn(client bool) int32 {
	id := int32(-1)
	if client {
		if nclients+1 >= libBase {
			return -1
		}
		nclients++
		id = nclients
	} else {
		// reuse the slot of a finished library-spawned task
		for i := int32(libBase); i < ntasks; i++ {
			if tasks[i].state == stDone || tasks[i].state == stUnused {
				id = i
				break
			}
		}
		if id < 0 {
			id = ntasks
			if id < libBase {
				id = libBase
			}
			if id >= MaxTasks {
				return -1
			}
		}
	}
	if id >= ntasks {
		ntasks = id + 1
	}
	old := &tasks[id]
	tasks[id] = task{state: stRunnable, client: client, prio: int32(rng.next() % 1000), gen: runGen,
		expl: old.expl, explBlk: old.explBlk, explFin: old.explFin}
	if !client {
		stats.GoSpawns++
	}
	return id
}

//go:norace
func reset(s Sched, f Faults) {
	runGen++
	on = false
	aborted = false
	allDone = false
	escaped = nil
	cur = 0
	stepN = 0
	sched = s
	faults = f
	rng.seed(s.Seed)
	frng.seed(f.Seed ^ 0x9e3779b97f4a7c15)
	ntasks = 1 // id 0 is the main (non-client) context
	nclients = 0
	nsurvivors = 0
	postFires = 0
	for i := range tasks {
		t := &tasks[i]
		if i >= libBase && t.persist && t.parked && !t.client && (t.state == stRunnable || t.state == stBlocked) {
			// a library goroutine that outlived an earlier run: it takes part in
			// this one (same task number, same wait)
			*t = task{state: t.state, blockedOn: t.blockedOn, lastSite: t.lastSite, prio: int32(rng.next() % 1000), gen: runGen}
			nsurvivors++
			ntasks = int32(i) + 1
			continue
		}
		*t = task{}
	}
	stats = Stats{}
	if switches == nil {
		switches = make([]Switch, 0, MaxSwitches)
		pairs = make([]uint64, 0, MaxSwitches)
	}
	switches = switches[:0]
	pairs = pairs[:0]
	nchange = 0
	lowPrio = 0
	if nsurvivors == 0 || simNow < f.ClockBase {
		simNow = f.ClockBase
	}
	if sched.Policy == PolPCT {
		est := sched.EstSteps
		if est == 0 {
			est = 20000
		}
		d := sched.D
		if d > len(changeAt) {
			d = len(changeAt)
		}
		for k := 0; k < d; k++ {
			changeAt[k] = 1 + rng.next()%est
		}
		nchange = d
	}
	ngc = 0
	if f.GCPoints > 0 {
		est := s.EstSteps
		if est == 0 {
			est = 20000
		}
		for k := 0; k < f.GCPoints && k < len(gcAt); k++ {
			gcAt[k] = 1 + frng.next()%est
			ngc++
		}
	}
	resetPools()
	if nsurvivors > 0 {
		compactChans()
	} else {
		// with survivors the channels, timers and contexts they wait on live on
		resetChans()
		resetTimers()
		resetCtx()
	}
	resetTicks()
	rrCursor, leaseTask, leaseLeft = 0, 0, 0
}

//go:norace
func distributeExplicit() {
	if sched.Policy != PolExplicit {
		return
	}
	for i := range sched.Explicit {
		e := sched.Explicit[i]
		if e.Task > 0 && e.Task < MaxTasks {
			switch e.Kind {
			case 0:
				tasks[e.Task].expl = append(tasks[e.Task].expl, e)
			case 1:
				tasks[e.Task].explFin = e.To
			case 2:
				tasks[e.Task].explBlk = append(tasks[e.Task].explBlk, e)
			}
		}
	}
}

// RunTasks executes the client bodies as simulated tasks under schedule s and
// returns when all of them (and every task the library spawned) are done, or
// the run was aborted. The caller (main goroutine) never takes the turn.
func RunTasks(s Sched, f Faults, bodies []func()) (Stats, []Switch) {
	reset(s, f)
	joinWG.Add(int(nsurvivors)) // each parks again (or ends) before this run is over
	distributeExplicit()
	for range bodies {
		spawn(true)
	}
	clientsLeft = int32(len(bodies))
	graceSteps = 0
	var cleanupTask int32 = -1
	fs := takePendingCleanups()
	if len(fs) > 0 {
		// cleanups queued at the last run boundary: a library task of this run
		cleanupTask = spawn(false)
	}
	first := start()
	joinWG.Add(len(bodies))
	for i, b := range bodies {
		go runTask(int32(i+1), b)
	}
	if cleanupTask >= 0 {
		joinWG.Add(1)
		go runTask(cleanupTask, func() {
			for _, f := range fs {
				f()
			}
		})
	} else if len(fs) > 0 {
		queueCleanups(fs) // no free task slot: try again next run
	}
	drive(first)
	joinWG.Wait() // the one real synchronisation: join of all tasks
	return collect()
}

//go:norace
func start() int32 {
	var first int32 = 1
	switch sched.Policy {
	case PolExplicit:
		first = 1
		for i := range sched.Explicit {
			if sched.Explicit[i].Kind == 3 { // start marker
				first = sched.Explicit[i].To
				break
			}
		}
		if first <= 0 || first >= ntasks {
			first = 1
		}
	default:
		first = pick(-1)
	}
	return first
}

//go:norace
func drive(first int32) {
	if len(switches) < cap(switches) {
		switches = append(switches, Switch{Task: 0, To: first, Kind: 3})
	}
	on = true
	cur = first
	for !allDone && !aborted {
		runtime.Gosched()
	}
	on = false
}

//go:norace
func collect() (Stats, []Switch) {
	st := stats
	st.Steps = stepN
	st.PairFP = append([]uint64(nil), pairs...)
	sw := append([]Switch(nil), switches...)
	return st, sw
}

// ---- PRNG (splitmix64 seeding xoshiro256**) ----

type rngState struct{ s [4]uint64 }

//go:norace
func mix(z uint64) uint64 {
	z += 0x9e3779b97f4a7c15
	z = (z ^ (z >> 30)) * 0xbf58476d1ce4e5b9
	z = (z ^ (z >> 27)) * 0x94d049bb133111eb
	return z ^ (z >> 31)
}

//go:norace
func (r *rngState) seed(x uint64) {
	for i := range r.s {
		x += 0x9e3779b97f4a7c15
		r.s[i] = mix(x)
	}
}

//go:norace
func rotl(x uint64, k uint) uint64 { return (x << k) | (x >> (64 - k)) }

//go:norace
func (r *rngState) next() uint64 {
	s := &r.s
	res := rotl(s[1]*5, 7) * 9
	t := s[1] << 17
	s[2] ^= s[0]
	s[3] ^= s[1]
	s[1] ^= s[2]
	s[0] ^= s[3]
	s[2] ^= t
	s[3] = rotl(s[3], 45)
	return res
}

// stallKind downgrades a deadlock or stall verdict to a harness limit when the
// run hit the bound on ticker firings: the bound, not the library, may be what
// stopped progress.
//
//go:norace
func stallKind(k string) string {
	if tickerCapped() || reapedTotal > 0 {
		return "harness-limit"
	}
	return k
}

//go:norace
func stallWhy() string {
	switch {
	case tickerCapped():
		return "stall after the bound on ticker firings was reached (not judged): "
	case reapedTotal > 0:
		return "stall after library goroutines of an earlier run were ended by the simulator (not judged): "
	}
	return ""
}

// reapedTotal counts, over the life of the process, the library goroutines that
// were still alive when their run ended and were ended by the simulator. If the
// library relies on such a goroutine later (a worker started once), a later
// caller waits for something the simulator removed: a stall after that is the
// simulator's doing and is reported as a harness limit, never as a deadlock.
var reapedTotal int

// Gosched replaces runtime.Gosched in instrumented library code: the task
// really yields - the turn goes to the next runnable task, whatever the policy.
// (A polite spin loop would otherwise keep the turn under a non-preemptive
// policy until the starvation guard steps in, a hundred thousand steps later.)
//
//go:norace
func Gosched() {
	if !on || aborted || allDone {
		runtime.Gosched()
		return
	}
	if sched.Policy == PolExplicit {
		return // the recorded switch at this point was taken at the preceding yield
	}
	t := &tasks[cur]
	if to := rrNext(rrCursor, cur); to >= 0 {
		rrCursor = to
		preempt(t, t.lastSite, to, 0)
	}
}
