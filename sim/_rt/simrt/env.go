package simrt

import (
	"cmp"
	"fmt"
	"hash/maphash"
	"iter"
	"os"
	"runtime"
	"slices"
	"strconv"
	"time"
	"unsafe"
)

// ---- simulated clock ----

var simNow int64

// Now replaces time.Now in instrumented library code. Outside a simulated run
// it is the real clock.
//
//go:norace
func Now() time.Time {
	if !on {
		return time.Now()
	}
	stats.ClockReads++
	if faults.ClockJump {
		switch frng.next() % 8 {
		case 0: // jump far forward (up to ~3 years)
			simNow += int64(frng.next() % uint64(3*365*24*time.Hour))
			stats.ClockJumps++
		case 1: // jump backward (up to ~30 days)
			simNow -= int64(frng.next() % uint64(30*24*time.Hour))
			stats.ClockJumps++
		default:
			simNow += int64(frng.next() % uint64(time.Millisecond))
		}
	} else {
		simNow += 1000
	}
	return time.Unix(0, simNow).UTC()
}

func Since(t time.Time) time.Duration { return Now().Sub(t) }
func Until(t time.Time) time.Duration { return t.Sub(Now()) }

// Sleep advances the simulated clock and yields.
func Sleep(d time.Duration) {
	if !Active() {
		time.Sleep(d)
		return
	}
	if d <= 0 {
		Y(0)
		return
	}
	// A sleeping task waits for a timer like any other waiter: the clock passes
	// the deadline when every task waits (or under the clock fault), not the
	// moment somebody decides to sleep. A library goroutine that sleeps in a
	// loop therefore does not spin through the run, and a run whose client
	// tasks are done ends once only such sleepers are left.
	Recv(After(d))
}

func advance(d time.Duration) {
	target := bump(d)
	for dueTimer(target) {
		fireEarliestTimer()
	}
}

//go:norace
func bump(d time.Duration) int64 { simNow += int64(d); return simNow }

//go:norace
func dueTimer(now int64) bool {
	for i := range vtimers {
		if vtimers[i].used && vtimers[i].at <= now {
			return true
		}
	}
	return false
}

// ---- seeded randomness for math/rand top-level functions ----

//go:norace
func RandUint64() uint64 {
	if on {
		stats.RandDraws++
	}
	return frng.next()
}

func RandInt63() int64     { return int64(RandUint64() >> 1) }
func RandInt31() int32     { return int32(RandUint64() >> 33) }
func RandUint32() uint32   { return uint32(RandUint64() >> 32) }
func RandInt() int         { return int(uint(RandUint64()) >> 1) }
func RandFloat64() float64 { return float64(RandUint64()>>11) / (1 << 53) }
func RandFloat32() float32 { return float32(RandUint64()>>40) / (1 << 24) }
func RandIntn(n int) int {
	if n <= 0 {
		panic("invalid argument to Intn")
	}
	return int(RandUint64() % uint64(n))
}
func RandInt63n(n int64) int64 {
	if n <= 0 {
		panic("invalid argument to Int63n")
	}
	return int64(RandUint64() % uint64(n))
}
func RandInt31n(n int32) int32 {
	if n <= 0 {
		panic("invalid argument to Int31n")
	}
	return int32(RandUint64() % uint64(n))
}
func RandPerm(n int) []int {
	p := make([]int, n)
	for i := range p {
		p[i] = i
	}
	RandShuffle(n, func(i, j int) { p[i], p[j] = p[j], p[i] })
	return p
}
func RandShuffle(n int, swap func(i, j int)) {
	for i := n - 1; i > 0; i-- {
		j := int(RandUint64() % uint64(i+1))
		swap(i, j)
	}
}
func RandSeed(int64) {}

// ---- map iteration order ----

//go:norace
func notePerm() bool {
	if on && faults.MapPerm {
		stats.MapPerms++
		return true
	}
	return false
}

//go:norace
func permDraw(n int) int { return int(frng.next() % uint64(n)) }

// MapIter replaces `range m` for map-typed m in instrumented library code:
// keys are visited in a canonical order (so that replays are exact), permuted
// by the run's PRNG when the map_order fault is enabled. Entries deleted during
// the iteration are skipped, entries added are not visited (both legal).
func MapIter[M ~map[K]V, K comparable, V any](m M) iter.Seq2[K, V] {
	return func(yield func(K, V) bool) {
		if len(m) == 0 {
			return
		}
		type kk struct {
			k K
			s string
		}
		keys := make([]kk, 0, len(m))
		for k := range m {
			keys = append(keys, kk{k, fmt.Sprintf("%#v", k)})
		}
		slices.SortFunc(keys, func(a, b kk) int { return cmp.Compare(a.s, b.s) })
		if notePerm() {
			for i := len(keys) - 1; i > 0; i-- {
				j := permDraw(i + 1)
				keys[i], keys[j] = keys[j], keys[i]
			}
		}
		for _, e := range keys {
			v, ok := m[e.k]
			if !ok {
				continue
			}
			if !yield(e.k, v) {
				return
			}
		}
	}
}

// ---- virtual sync.Pool support (used by simsync.Pool) ----

// PoolDecision tells simsync.Pool what the environment does with a Get/Put.
// Returns drop=true for a Put that should discard, or for a Get that should
// miss; steal=true asks Get to prefer an object last Put by another task.
//
//go:norace
func PoolPutDrop() bool {
	if !on || faults.PoolDrop == 0 {
		return false
	}
	if uint32(frng.next()%1000) < faults.PoolDrop {
		stats.PoolDrops++
		return true
	}
	return false
}

//go:norace
func PoolSteal() bool { return on && faults.PoolSteal }

//go:norace
func NotePoolGet(stolen bool) {
	if on {
		stats.PoolGets++
		if stolen {
			stats.PoolSteals++
		}
	}
}

var poolResetters []func()

// RegisterPoolReset lets virtual pools forget their contents between runs.
func RegisterPoolReset(f func()) { poolResetters = append(poolResetters, f) }

func resetPools() {
	for _, f := range poolResetters {
		f()
	}
}

// ---- processor count ----

var simProcs = func() int {
	if v := os.Getenv("VSIM_PROCS"); v != "" {
		if n, err := strconv.Atoi(v); err == nil && n > 0 {
			return n
		}
	}
	return 0
}()

// GOMAXPROCS replaces runtime.GOMAXPROCS in instrumented library code. The
// simulator serialises execution on one processor; code that sizes or shards
// its structures by the processor count would otherwise always see 1. The
// value is fixed per simulator process (it differs from process to process).
func GOMAXPROCS(n int) int {
	if simProcs > 0 {
		return simProcs
	}
	return runtime.GOMAXPROCS(n)
}

// NumCPU replaces runtime.NumCPU in instrumented library code.
func NumCPU() int {
	if simProcs > 0 {
		return simProcs
	}
	return runtime.NumCPU()
}

// ---- hash/maphash seeds ----

var (
	hseedSalt = func() uint64 {
		if v := os.Getenv("VSIM_HSEED"); v != "" {
			if n, err := strconv.ParseUint(v, 10, 64); err == nil {
				return n
			}
		}
		return 0
	}()
	hseedN uint64
)

//go:norace
func nextHSeed() uint64 {
	hseedN++
	x := mix(hseedSalt*0x9e3779b97f4a7c15 + hseedN)
	if x == 0 {
		x = 1
	}
	return x
}

// MakeSeed replaces maphash.MakeSeed in instrumented library code: the k-th
// seed a simulator process hands out is a fixed function of k and of the batch
// number (VSIM_HSEED), so that a table indexed by a seeded hash lays itself out
// the same way when a batch is re-executed or a finding replayed, and
// differently from batch to batch. (maphash.Seed is a one-word struct; a zero
// word means "unset" and is avoided.)
func MakeSeed() maphash.Seed {
	var sd maphash.Seed
	if unsafe.Sizeof(sd) != 8 {
		return maphash.MakeSeed()
	}
	*(*uint64)(unsafe.Pointer(&sd)) = nextHSeed()
	return sd
}

//go:norace
func seedWord(sd maphash.Seed) uint64 {
	if unsafe.Sizeof(sd) != 8 {
		return 0
	}
	return *(*uint64)(unsafe.Pointer(&sd))
}

// MHString and MHBytes replace maphash.String and maphash.Bytes: the runtime's
// hash functions are keyed with a random value per process whatever the seed
// is, so the simulator uses a keyed hash of its own (a function of seed and
// text only).
func MHString(sd maphash.Seed, s string) uint64 {
	h := seedWord(sd) ^ 0xcbf29ce484222325
	for i := 0; i < len(s); i++ {
		h = (h ^ uint64(s[i])) * 0x100000001b3
	}
	return mix(h ^ uint64(len(s)))
}

func MHBytes(sd maphash.Seed, b []byte) uint64 {
	h := seedWord(sd) ^ 0xcbf29ce484222325
	for i := 0; i < len(b); i++ {
		h = (h ^ uint64(b[i])) * 0x100000001b3
	}
	return mix(h ^ uint64(len(b)))
}
