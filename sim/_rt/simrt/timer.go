package simrt

import (
	"time"
	"unsafe"
)

// Timer replaces time.Timer in instrumented library code (the instrumenter
// rewrites the type name and the constructors). Inside a simulated run it is a
// discrete-event timer on the simulated clock: it fires when the clock passes
// its deadline, which happens when every task is waiting (the clock jumps), when
// a task sleeps past it, or early under the clock-jump fault. Outside a run it
// wraps a real timer.
type Timer struct {
	C    <-chan time.Time
	ch   chan time.Time
	real *time.Timer
	f    func()
	sim  bool
}

func (t *Timer) key() unsafe.Pointer {
	if t.f != nil {
		return unsafe.Pointer(t)
	}
	return *(*unsafe.Pointer)(unsafe.Pointer(&t.ch))
}

func (t *Timer) arm(d time.Duration) {
	at := nowNanos() + int64(d)
	key := t.key()
	f, ch := t.f, t.ch
	ok := addTimer(at, key, func() {
		if f != nil {
			Go(f)
			return
		}
		select {
		case ch <- time.Unix(0, at).UTC():
		default:
		}
		Wake(key)
		Wake(unsafe.Pointer(&selectAddr))
	})
	if !ok {
		abort("harness-limit", "too many pending timers")
	}
}

// NewTimer replaces time.NewTimer.
func NewTimer(d time.Duration) *Timer {
	if !Active() {
		rt := time.NewTimer(d)
		return &Timer{C: rt.C, real: rt}
	}
	noteTimer()
	ch := make(chan time.Time, 1)
	t := &Timer{C: ch, ch: ch, sim: true}
	t.arm(d)
	return t
}

// AfterFunc replaces time.AfterFunc: f runs as a simulated task of its own once
// the simulated clock has passed d.
func AfterFunc(d time.Duration, f func()) *Timer {
	if !Active() {
		return &Timer{real: time.AfterFunc(d, func() { Go(f) })}
	}
	noteTimer()
	t := &Timer{f: f, sim: true}
	t.arm(d)
	return t
}

// Stop prevents the timer from firing; it reports whether it was still pending.
func (t *Timer) Stop() bool {
	if !t.sim {
		return t.real.Stop()
	}
	if !Active() {
		return false
	}
	Y(0)
	was := cancelTimer(t.key())
	if t.ch != nil {
		// Go 1.23 timers: a value that fired but was not received is discarded by
		// Stop, which then reports the timer as stopped in time
		select {
		case <-t.ch:
			was = true
		default:
		}
	}
	return was
}

// Reset re-arms the timer; it reports whether it was still pending. As with Go
// 1.23 timers, a value that fired but was not received is discarded.
func (t *Timer) Reset(d time.Duration) bool {
	if !t.sim {
		return t.real.Reset(d)
	}
	if !Active() {
		return false
	}
	Y(0)
	was := cancelTimer(t.key())
	if t.ch != nil {
		select {
		case <-t.ch:
			was = true
		default:
		}
	}
	t.arm(d)
	return was
}

// Ticker replaces time.Ticker.
type Ticker struct {
	C    <-chan time.Time
	ch   chan time.Time
	real *time.Ticker
	d    time.Duration
	sim  bool
	live bool
}

// maxTicks bounds how often the tickers of one run fire in total: a ticker
// nobody listens to would otherwise keep the clock jumping forever. A run in
// which the bound was reached cannot report a deadlock or a stall (the bound,
// not the library, may have caused it): it ends as a harness limit.
const maxTicks = 512

//go:norace
func (t *Ticker) isLive() bool { return t.live }

//go:norace
func (t *Ticker) setLive(b bool) { t.live = b }

//go:norace
func (t *Ticker) period() time.Duration { return t.d }

//go:norace
func (t *Ticker) setPeriod(d time.Duration) { t.d = d }

func (t *Ticker) arm() {
	at := nowNanos() + int64(t.period())
	ch := t.ch
	key := *(*unsafe.Pointer)(unsafe.Pointer(&ch))
	ok := addTimer(at, key, func() {
		if !t.isLive() {
			return
		}
		select {
		case ch <- time.Unix(0, at).UTC():
		default:
		}
		Wake(key)
		Wake(unsafe.Pointer(&selectAddr))
		if countTick() {
			t.arm()
		}
	})
	if !ok {
		abort("harness-limit", "too many pending timers")
	}
}

// NewTicker replaces time.NewTicker.
func NewTicker(d time.Duration) *Ticker {
	if d <= 0 {
		panic("non-positive interval for NewTicker")
	}
	if !Active() {
		rt := time.NewTicker(d)
		return &Ticker{C: rt.C, real: rt}
	}
	noteTimer()
	ch := make(chan time.Time, 1)
	t := &Ticker{C: ch, ch: ch, d: d, sim: true, live: true}
	t.arm()
	return t
}

// Tick replaces time.Tick.
func Tick(d time.Duration) <-chan time.Time {
	if d <= 0 {
		return nil
	}
	return NewTicker(d).C
}

func (t *Ticker) Stop() {
	if !t.sim {
		t.real.Stop()
		return
	}
	t.setLive(false)
	if Active() {
		Y(0)
		cancelTimer(*(*unsafe.Pointer)(unsafe.Pointer(&t.ch)))
	}
}

func (t *Ticker) Reset(d time.Duration) {
	if d <= 0 {
		panic("non-positive interval for Ticker.Reset")
	}
	if !t.sim {
		t.real.Reset(d)
		return
	}
	t.setPeriod(d)
	if Active() {
		Y(0)
		cancelTimer(*(*unsafe.Pointer)(unsafe.Pointer(&t.ch)))
		t.setLive(true)
		t.arm()
	}
}

var (
	ticksFired  int
	tickerBound bool
)

//go:norace
func countTick() bool {
	ticksFired++
	if ticksFired >= maxTicks {
		tickerBound = true
		return false
	}
	return true
}

//go:norace
func resetTicks() { ticksFired, tickerBound = 0, false }

//go:norace
func tickerCapped() bool { return tickerBound }

//go:norace
func noteTimer() {
	if on {
		stats.TimersMade++
	}
}

//go:norace
func cancelTimer(key unsafe.Pointer) bool {
	for i := range vtimers {
		if vtimers[i].used && vtimers[i].key == key {
			vtimers[i] = vtimer{}
			nvtimers--
			return true
		}
	}
	return false
}
