// Package simsync offers the names of package sync to instrumented library
// code. Blocking primitives are simulator-aware: a task that would block marks
// itself blocked and hands the turn to the scheduler instead of parking in the
// Go runtime (which would hang a serialised execution). Each primitive issues
// the same race-detector acquire/release annotations as the real one, so the
// happens-before edges a correctly synchronised change creates are honoured,
// and the ones a broken change fails to create are missing.
package simsync

import (
	"cmp"
	"fmt"
	"slices"
	"sync"
	"unsafe"

	"github.com/alowayed/go-univers/zz_sim/simrt"
)

type Locker = sync.Locker

// ---------------- Mutex ----------------

type Mutex struct {
	held bool
}

//go:norace
func (m *Mutex) tryAcquire() bool {
	if m.held {
		return false
	}
	m.held = true
	return true
}

//go:norace
func (m *Mutex) drop() bool {
	if !m.held {
		return false
	}
	m.held = false
	return true
}

func (m *Mutex) Lock() {
	simrt.NoteSync()
	for !m.tryAcquire() {
		simrt.Block(unsafe.Pointer(m))
	}
	simrt.RaceAcquire(unsafe.Pointer(m))
}

func (m *Mutex) TryLock() bool {
	simrt.NoteSync()
	if !m.tryAcquire() {
		return false
	}
	simrt.RaceAcquire(unsafe.Pointer(m))
	return true
}

func (m *Mutex) Unlock() {
	simrt.RaceRelease(unsafe.Pointer(m))
	if !m.drop() {
		if simrt.Aborted() {
			return
		}
		panic("sync: unlock of unlocked mutex")
	}
	simrt.Wake(unsafe.Pointer(m))
}

// ---------------- RWMutex ----------------

type RWMutex struct {
	writer  bool
	readers int
	wwait   int
	rsem    byte // address used for reader->writer edges
}

//go:norace
func (rw *RWMutex) tryW() bool {
	if rw.writer || rw.readers > 0 {
		return false
	}
	rw.writer = true
	return true
}

//go:norace
func (rw *RWMutex) tryR() bool {
	if rw.writer || rw.wwait > 0 {
		return false
	}
	rw.readers++
	return true
}

//go:norace
func (rw *RWMutex) addWait(d int) { rw.wwait += d }

//go:norace
func (rw *RWMutex) dropW() bool {
	if !rw.writer {
		return false
	}
	rw.writer = false
	return true
}

//go:norace
func (rw *RWMutex) dropR() bool {
	if rw.readers <= 0 {
		return false
	}
	rw.readers--
	return true
}

func (rw *RWMutex) Lock() {
	simrt.NoteSync()
	if !rw.tryW() {
		rw.addWait(1)
		for !rw.tryW() {
			simrt.Block(unsafe.Pointer(rw))
		}
		rw.addWait(-1)
	}
	simrt.RaceAcquire(unsafe.Pointer(rw))
	simrt.RaceAcquire(unsafe.Pointer(&rw.rsem))
}

func (rw *RWMutex) TryLock() bool {
	simrt.NoteSync()
	if !rw.tryW() {
		return false
	}
	simrt.RaceAcquire(unsafe.Pointer(rw))
	simrt.RaceAcquire(unsafe.Pointer(&rw.rsem))
	return true
}

func (rw *RWMutex) Unlock() {
	simrt.RaceRelease(unsafe.Pointer(rw))
	if !rw.dropW() {
		if simrt.Aborted() {
			return
		}
		panic("sync: Unlock of unlocked RWMutex")
	}
	simrt.Wake(unsafe.Pointer(rw))
}

func (rw *RWMutex) RLock() {
	simrt.NoteSync()
	for !rw.tryR() {
		simrt.Block(unsafe.Pointer(rw))
	}
	simrt.RaceAcquire(unsafe.Pointer(rw))
}

func (rw *RWMutex) TryRLock() bool {
	simrt.NoteSync()
	if !rw.tryR() {
		return false
	}
	simrt.RaceAcquire(unsafe.Pointer(rw))
	return true
}

func (rw *RWMutex) RUnlock() {
	simrt.RaceReleaseMerge(unsafe.Pointer(&rw.rsem))
	if !rw.dropR() {
		if simrt.Aborted() {
			return
		}
		panic("sync: RUnlock of unlocked RWMutex")
	}
	simrt.Wake(unsafe.Pointer(rw))
}

type rlocker RWMutex

func (r *rlocker) Lock()   { (*RWMutex)(r).RLock() }
func (r *rlocker) Unlock() { (*RWMutex)(r).RUnlock() }

func (rw *RWMutex) RLocker() Locker { return (*rlocker)(rw) }

// ---------------- Once ----------------

type Once struct {
	state int // 0 not started, 1 running, 2 done
}

//go:norace
func (o *Once) get() int { return o.state }

//go:norace
func (o *Once) set(s int) { o.state = s }

func (o *Once) Do(f func()) {
	simrt.NoteSync()
	for {
		switch o.get() {
		case 2:
			simrt.RaceAcquire(unsafe.Pointer(o))
			return
		case 1:
			simrt.Block(unsafe.Pointer(o))
			continue
		}
		break
	}
	o.set(1)
	defer func() {
		simrt.RaceRelease(unsafe.Pointer(o))
		o.set(2)
		simrt.Wake(unsafe.Pointer(o))
	}()
	f()
}

func OnceFunc(f func()) func() {
	var once Once
	var valid bool
	var p any
	g := func() {
		defer func() {
			p = recover()
			if !valid {
				panic(p)
			}
		}()
		f()
		f = nil
		valid = true
	}
	return func() {
		once.Do(g)
		if !valid {
			panic(p)
		}
	}
}

func OnceValue[T any](f func() T) func() T {
	var once Once
	var valid bool
	var p any
	var result T
	g := func() {
		defer func() {
			p = recover()
			if !valid {
				panic(p)
			}
		}()
		result = f()
		f = nil
		valid = true
	}
	return func() T {
		once.Do(g)
		if !valid {
			panic(p)
		}
		return result
	}
}

func OnceValues[T1, T2 any](f func() (T1, T2)) func() (T1, T2) {
	var once Once
	var valid bool
	var p any
	var r1 T1
	var r2 T2
	g := func() {
		defer func() {
			p = recover()
			if !valid {
				panic(p)
			}
		}()
		r1, r2 = f()
		f = nil
		valid = true
	}
	return func() (T1, T2) {
		once.Do(g)
		if !valid {
			panic(p)
		}
		return r1, r2
	}
}

// ---------------- WaitGroup ----------------

type WaitGroup struct {
	n int
}

//go:norace
func (wg *WaitGroup) add(d int) int { wg.n += d; return wg.n }

//go:norace
func (wg *WaitGroup) cnt() int { return wg.n }

func (wg *WaitGroup) Add(delta int) {
	simrt.NoteSync()
	if delta < 0 {
		simrt.RaceReleaseMerge(unsafe.Pointer(wg))
	}
	n := wg.add(delta)
	if n < 0 {
		panic("sync: negative WaitGroup counter")
	}
	if n == 0 {
		simrt.Wake(unsafe.Pointer(wg))
	}
}

func (wg *WaitGroup) Done() { wg.Add(-1) }

func (wg *WaitGroup) Wait() {
	simrt.NoteSync()
	for wg.cnt() > 0 {
		simrt.Block(unsafe.Pointer(wg))
	}
	simrt.RaceAcquire(unsafe.Pointer(wg))
}

func (wg *WaitGroup) Go(f func()) {
	wg.Add(1)
	simrt.Go(func() {
		defer wg.Done()
		f()
	})
}

// ---------------- Cond ----------------

type Cond struct {
	L Locker
	// ticket model of the runtime's notify list: a waiter takes the next ticket;
	// tickets below notify have been notified. A waiter that arrives after a
	// Broadcast can therefore never consume a wake-up meant for an earlier one
	// (a counter of "signals" that any waiter may take loses wake-ups: a false
	// deadlock on correct code, found with a barrier built on one Cond).
	wait   uint64
	notify uint64
}

func NewCond(l Locker) *Cond { return &Cond{L: l} }

//go:norace
func (c *Cond) enq() uint64 {
	t := c.wait
	c.wait++
	return t
}

//go:norace
func (c *Cond) notified(t uint64) bool { return t < c.notify }

//go:norace
func (c *Cond) sig(all bool) {
	if all {
		c.notify = c.wait
	} else if c.notify < c.wait {
		c.notify++
	}
}

func (c *Cond) Wait() {
	simrt.NoteSync()
	t := c.enq()
	c.L.Unlock()
	for !c.notified(t) {
		simrt.Block(unsafe.Pointer(c))
	}
	c.L.Lock()
}

func (c *Cond) Signal()    { simrt.NoteSync(); c.sig(false); simrt.Wake(unsafe.Pointer(c)) }
func (c *Cond) Broadcast() { simrt.NoteSync(); c.sig(true); simrt.Wake(unsafe.Pointer(c)) }

// ---------------- Map ----------------

// Map wraps sync.Map (which never blocks across a yield point) and makes Range
// deterministic: entries are visited in a canonical order, permuted by the
// run's PRNG under the map_order fault.
type Map struct {
	m sync.Map
}

func (m *Map) Load(key any) (any, bool) { simrt.NoteSync(); return m.m.Load(key) }
func (m *Map) Store(key, value any)     { simrt.NoteSync(); m.m.Store(key, value) }
func (m *Map) LoadOrStore(key, value any) (any, bool) {
	simrt.NoteSync()
	return m.m.LoadOrStore(key, value)
}
func (m *Map) LoadAndDelete(key any) (any, bool) { simrt.NoteSync(); return m.m.LoadAndDelete(key) }
func (m *Map) Delete(key any)                    { simrt.NoteSync(); m.m.Delete(key) }
func (m *Map) Swap(key, value any) (any, bool)   { simrt.NoteSync(); return m.m.Swap(key, value) }
func (m *Map) CompareAndSwap(key, old, new any) bool {
	simrt.NoteSync()
	return m.m.CompareAndSwap(key, old, new)
}
func (m *Map) CompareAndDelete(key, old any) bool {
	simrt.NoteSync()
	return m.m.CompareAndDelete(key, old)
}
func (m *Map) Clear() { simrt.NoteSync(); m.m.Clear() }
func (m *Map) Range(f func(key, value any) bool) {
	simrt.NoteSync()
	type ent struct {
		k, v any
		s    string
	}
	var es []ent
	m.m.Range(func(k, v any) bool {
		es = append(es, ent{k, v, fmt.Sprintf("%#v", k)})
		return true
	})
	slices.SortFunc(es, func(a, b ent) int { return cmp.Compare(a.s, b.s) })
	idx := make(map[int]struct{}, len(es))
	for i := range es {
		idx[i] = struct{}{}
	}
	// reuse MapIter for the seeded permutation of the canonical order
	for i := range simrt.MapIter(idx) {
		if !f(es[i].k, es[i].v) {
			return
		}
	}
}

// ---------------- Pool ----------------

// Pool is a virtual sync.Pool. Objects Put by one task may be handed to another
// (pool_steal) or discarded (pool_drop) as the run's PRNG decides; both are
// legal behaviours of the real pool. Acquire/release annotations per object
// mirror the real implementation, so correct reuse is never reported.
type Pool struct {
	New func() any

	// Fixed-size storage handled with plain loops inside //go:norace functions:
	// append/copy would call into runtime helpers that report to the race
	// detector on behalf of their caller.
	items [poolCap]poolItem
	n     int
	reg   bool
}

const poolCap = 64

type poolItem struct {
	x     any
	owner int32
}

//go:norace
func (p *Pool) push(x any) {
	if !p.reg {
		p.reg = true
		simrt.RegisterPoolReset(p.reset)
	}
	if p.n >= poolCap {
		return // full: dropping is legal
	}
	p.items[p.n] = poolItem{x, simrt.Cur()}
	p.n++
}

//go:norace
func (p *Pool) reset() {
	for i := 0; i < p.n; i++ {
		p.items[i] = poolItem{}
	}
	p.n = 0
}

//go:norace
func (p *Pool) pop() (any, bool, bool) {
	n := p.n
	if n == 0 {
		return nil, false, false
	}
	i := n - 1
	me := simrt.Cur()
	if simrt.PoolSteal() {
		for j := n - 1; j >= 0; j-- {
			if p.items[j].owner != me {
				i = j
				break
			}
		}
	}
	it := p.items[i]
	for k := i; k < n-1; k++ {
		p.items[k] = p.items[k+1]
	}
	p.items[n-1] = poolItem{}
	p.n = n - 1
	return it.x, true, it.owner != me
}

func poolAddr(x any) unsafe.Pointer {
	type eface struct{ typ, val unsafe.Pointer }
	return (*eface)(unsafe.Pointer(&x)).val
}

func (p *Pool) Put(x any) {
	simrt.NoteSync()
	if x == nil {
		return
	}
	if simrt.PoolPutDrop() {
		return
	}
	simrt.RaceReleaseMerge(poolAddr(x))
	p.push(x)
}

func (p *Pool) Get() any {
	simrt.NoteSync()
	x, ok, stolen := p.pop()
	simrt.NotePoolGet(ok && stolen)
	if ok {
		simrt.RaceAcquire(poolAddr(x))
		return x
	}
	if p.New != nil {
		return p.New()
	}
	return nil
}
