// Package harness drives the go-univers public API from simulated caller
// threads. It is copied into a scratch copy of the repository at check time and
// built twice: plain (generator + sequential reference evaluator) and
// instrumented with -race (simulator).
package harness

import (
	"github.com/alowayed/go-univers/zz_sim/simrt"
)

// Op kinds.
const (
	KCmp  = "cmp"  // Compare(V[A], V[B])
	KCont = "cont" // Contains(R[R], V[A])
	KVStr = "vstr" // V[A].String()
	KRStr = "rstr" // R[R].String()
	KName = "name" // Ecosystem.Name()
	KNewV = "newv" // NewVersion(S), then use result against V[A], R[R]
	KNewR = "newr" // NewVersionRange(S), then use result against V[A]
	KVers = "vers" // vers.Contains(S, T)
	KSort = "sort" // sort a private slice of shared versions L
)

type Op struct {
	K string `json:"k"`
	E int    `json:"e"`
	A int    `json:"a"`
	B int    `json:"b"`
	R int    `json:"r"`
	S string `json:"s,omitempty"`
	T string `json:"t,omitempty"`
	L []int  `json:"l,omitempty"`
	N int    `json:"n,omitempty"` // repeat count: the operation is issued N times in a row
}

type EcoPool struct {
	Name     string   `json:"name"`
	Versions []string `json:"versions"`
	Ranges   []string `json:"ranges"`
}

type Spec struct {
	Seed    uint64       `json:"seed"`
	Tier    string       `json:"tier"`
	Index   int          `json:"index"`
	Ecos    []EcoPool    `json:"ecos"`
	Prewarm []Op         `json:"prewarm,omitempty"`
	Tasks   [][]Op       `json:"tasks"`
	Sched   simrt.Sched  `json:"sched"`
	Faults  simrt.Faults `json:"faults"`
	// Flood, when non-zero, asks the reverse-order reference process to push
	// that many distinct texts per spelling scheme through the library before
	// it evaluates anything (see Flood).
	Flood int `json:"flood,omitempty"`
}

type PoolObs struct {
	VStr []string `json:"vstr"`
	RStr []string `json:"rstr"`
	Cmp  string   `json:"cmp"`  // n*n chars '<' '=' '>' (or '?' for other values)
	Cont string   `json:"cont"` // r*n chars '0' '1'
}

// Exp is the reference table of a spec, computed sequentially on freshly parsed
// private values by the uninstrumented build in a separate process.
type Exp struct {
	Pre  []string   `json:"pre,omitempty"`
	Ops  [][]string `json:"ops"`
	Pool []PoolObs  `json:"pool"`
}

type Case struct {
	Spec Spec `json:"spec"`
	Exp  Exp  `json:"exp"`
}

type Batch struct {
	Seed  uint64 `json:"seed"`
	Tier  string `json:"tier"`
	Batch int    `json:"batch"`
	Cases []Case `json:"cases"`
}

// Mismatch is one disagreement with the reference table.
type Mismatch struct {
	Class string `json:"class"` // result-mismatch | history-dependence | shared-value-changed | pool-construction
	Task  int    `json:"task"`
	OpIdx int    `json:"op"`
	Op    *Op    `json:"opdef,omitempty"`
	What  string `json:"what"`
	Want  string `json:"want"`
	Got   string `json:"got"`
}

type RaceAttr struct {
	Task  int `json:"task"`
	OpIdx int `json:"op"`
	Count int `json:"count"`
}

type RunResult struct {
	Index       int            `json:"index"`
	Seed        uint64         `json:"seed"`
	Policy      string         `json:"policy"`
	Stats       simrt.Stats    `json:"stats"`
	Mismatches  []Mismatch     `json:"mismatches,omitempty"`
	RaceCount   int            `json:"race_count"`
	RaceAttr    []RaceAttr     `json:"race_attr,omitempty"`
	RaceText    string         `json:"race_text,omitempty"`
	EventHash   uint64         `json:"event_hash"`
	Ops         int            `json:"ops"`
	OpKinds     map[string]int `json:"op_kinds"`
	Switches    []simrt.Switch `json:"switches,omitempty"`
	Tasks       int            `json:"tasks"`
	Results     [][]string     `json:"results,omitempty"`
	HarnessErr  string         `json:"harness_err,omitempty"`
	WallNs      int64          `json:"wall_ns"`
	EcoNames    []string       `json:"eco_names"`
	VersSchemes []string       `json:"vers_schemes,omitempty"`
}

type BatchResult struct {
	Batch       int         `json:"batch"`
	Runs        []RunResult `json:"runs"`
	SiteHits    []uint32    `json:"site_hits,omitempty"`
	SitePreempt []uint32    `json:"site_preempt,omitempty"`
	PairFP      []uint64    `json:"pair_fp,omitempty"`
	Stopped     string      `json:"stopped,omitempty"`
}
