package harness

import (
	"regexp"
	"sort"
	"strconv"
	"strings"
)

// Families: instead of independent corpus strings, a run may draw its pool from
// a family of closely related spellings of one base version (truncations,
// zero-extensions, component bumps, suffix grafts, case / prefix / whitespace
// variants) and ranges instantiated from the ecosystem's own range templates
// over those spellings. Histories in which distinct-but-related texts meet are
// what exposes a cache keyed by too little, and ranges whose bounds sit next to
// the pool's versions drive both outcomes of every comparison.

var (
	verTok    = regexp.MustCompile(`[vV]?[0-9][0-9A-Za-z]*(?:[.+~_:\-][0-9A-Za-z]+)*`)
	baseSplit = regexp.MustCompile(`^(\s*[vV]?(?:\d+:)?)(\d+(?:\.\d+)*)(.*?)(\s*)$`)
)

func trimWild(tok string) string {
	for {
		l := strings.ToLower(tok)
		if strings.HasSuffix(l, ".x") {
			tok = tok[:len(tok)-2]
			continue
		}
		return tok
	}
}

// templatesOf turns range strings into templates with %s in place of each
// version-like token.
func templatesOf(ranges []string) []string {
	seen := map[string]bool{}
	var out []string
	for _, r := range ranges {
		n := 0
		t := verTok.ReplaceAllStringFunc(r, func(tok string) string {
			core := trimWild(tok)
			n++
			return "\x00" + tok[len(core):]
		})
		if n == 0 || n > 4 || strings.Contains(r, "%") {
			continue
		}
		t = strings.ReplaceAll(t, "\x00", "%s")
		if !seen[t] {
			seen[t] = true
			out = append(out, t)
		}
	}
	sort.Strings(out)
	if len(out) > 400 {
		out = out[:400]
	}
	return out
}

func fill(p *prng, tmpl string, cands []string) string {
	var sb strings.Builder
	for {
		i := strings.Index(tmpl, "%s")
		if i < 0 {
			sb.WriteString(tmpl)
			return sb.String()
		}
		sb.WriteString(tmpl[:i])
		sb.WriteString(strings.TrimSpace(pickS(p, cands)))
		tmpl = tmpl[i+2:]
	}
}

type family struct {
	cands []string // every spelling, valid or not
	vs    []string // spellings accepted by NewVersion
	rs    []string // instantiated templates accepted by NewVersionRange
}

func suffixOf(s string) string {
	if m := baseSplit.FindStringSubmatch(s); m != nil {
		return m[3]
	}
	return ""
}

func (g *Gen) family(p *prng, name string) family {
	ec := g.class[name]
	e := EcoByName(name)
	base := pickS(p, ec.versions)
	var f family
	add := func(s string) {
		for _, c := range f.cands {
			if c == s {
				return
			}
		}
		f.cands = append(f.cands, s)
	}
	add(base)
	if m := baseSplit.FindStringSubmatch(base); m != nil {
		pre, core, suf := m[1], m[2], m[3]
		comps := strings.Split(core, ".")
		join := func(c []string) string { return strings.Join(c, ".") }
		add(pre + core)
		for k := 1; k < len(comps); k++ {
			add(pre + join(comps[:k]) + suf)
			add(pre + join(comps[:k]))
			z := append([]string(nil), comps...)
			for i := k; i < len(z); i++ {
				z[i] = "0"
			}
			add(pre + join(z) + suf)
			add(pre + join(z))
		}
		add(pre + core + ".0" + suf)
		add(pre + core + ".0")
		for i := range comps {
			n, err := strconv.Atoi(comps[i])
			if err != nil || n > 1<<30 {
				continue
			}
			b := append([]string(nil), comps...)
			b[i] = strconv.Itoa(n + 1)
			add(pre + join(b) + suf)
			for j := i + 1; j < len(b); j++ {
				b[j] = "0"
			}
			add(pre + join(b))
			if n > 0 {
				b[i] = strconv.Itoa(n - 1)
				add(pre + join(b))
			}
		}
		for k := 0; k < 3; k++ {
			if s2 := suffixOf(pickS(p, ec.versions)); s2 != "" && s2 != suf {
				add(pre + core + s2)
			}
		}
		if suf != "" {
			add(pre + core + strings.ToUpper(suf))
			add(pre + core + strings.ToLower(suf))
		}
		lz := append([]string(nil), comps...)
		lz[len(lz)-1] = "0" + lz[len(lz)-1]
		add(pre + join(lz) + suf)
		add("v" + strings.TrimLeft(base, "vV "))
		add(" " + base + " ")
	} else {
		for k := 0; k < 4; k++ {
			add(mutate(p, base))
		}
	}
	// keep the base first, shuffle the rest, cap
	rest := f.cands[1:]
	for i := len(rest) - 1; i > 0; i-- {
		j := p.n(i + 1)
		rest[i], rest[j] = rest[j], rest[i]
	}
	if len(f.cands) > 20 {
		f.cands = f.cands[:20]
	}
	for _, c := range f.cands {
		if len(f.vs) < 12 && tryV(e, c) {
			f.vs = append(f.vs, c)
		}
	}
	tm := g.templates[name]
	addR := func(r string) {
		if len(r) > 120 || len(f.rs) >= 10 || !tryR(e, r) {
			return
		}
		for _, x := range f.rs {
			if x == r {
				return
			}
		}
		f.rs = append(f.rs, r)
	}
	// sibling ranges: the same template over several related spellings
	for t := p.rng(1, 3); t > 0 && len(tm) > 0; t-- {
		tmpl := pickS(p, tm)
		for k := p.rng(2, 5); k > 0; k-- {
			addR(fill(p, tmpl, f.cands))
		}
	}
	for tries := 0; tries < 20 && len(f.rs) < 6 && len(tm) > 0; tries++ {
		addR(fill(p, pickS(p, tm), f.cands))
	}
	return f
}

var versOps = []string{">=", "<=", ">", "<", "=", "!="}

// versSynth builds VERS ranges over a family's spellings and pairs the same
// constraint text with more than one scheme.
func (g *Gen) versSynth(p *prng, name string, f *family) [][2]string {
	var own string
	for s, en := range schemeEco {
		if en == name {
			own = s
		}
	}
	if own == "" || len(f.vs) == 0 {
		return nil
	}
	clean := func(s string) string { return strings.TrimSpace(s) }
	n := p.rng(1, 4)
	var parts []string
	var used []string
	for i := 0; i < n; i++ {
		v := clean(pickS(p, f.vs))
		if v == "" || strings.ContainsAny(v, "|/ ") {
			continue
		}
		used = append(used, v)
		parts = append(parts, versOps[p.n(len(versOps))]+v)
	}
	if len(parts) == 0 {
		return nil
	}
	if p.chance(1, 3) {
		for i := len(parts) - 1; i > 0; i-- {
			j := p.n(i + 1)
			parts[i], parts[j] = parts[j], parts[i]
		}
	}
	text := strings.Join(parts, "|")
	schemes := []string{own}
	// another scheme whose ecosystem accepts every version used
	var names []string
	for s := range schemeEco {
		names = append(names, s)
	}
	sort.Strings(names)
	for tries := 0; tries < 6 && len(schemes) < 3; tries++ {
		s := names[p.n(len(names))]
		if s == own {
			continue
		}
		e2 := EcoByName(schemeEco[s])
		if e2 == nil {
			continue
		}
		ok := true
		for _, v := range used {
			if !tryV(e2, v) {
				ok = false
			}
		}
		if ok {
			schemes = append(schemes, s)
		}
	}
	var out [][2]string
	for _, s := range schemes {
		for k := 0; k < 2; k++ {
			out = append(out, [2]string{"vers:" + s + "/" + text, clean(pickS(p, f.vs))})
		}
	}
	return out
}
