package harness

import (
	"fmt"
	"regexp"
	"sort"
	"strconv"
	"strings"
)

// Families: instead of independent corpus strings, a run may draw its pool from
// a family of closely related spellings of one base version (truncations,
// zero-extensions, component bumps, suffix grafts, case / prefix / whitespace
// variants) and ranges instantiated from the ecosystem's own range templates
// over those spellings. Histories in which distinct-but-related texts meet are
// what exposes a cache keyed by too little, and ranges whose bounds sit next to
// the pool's versions drive both outcomes of every comparison.

var (
	verTok    = regexp.MustCompile(`[vV]?[0-9][0-9A-Za-z]*(?:[.+~_:\-][0-9A-Za-z]+)*`)
	baseSplit = regexp.MustCompile(`^(\s*[vV]?(?:\d+:)?)(\d+(?:\.\d+)*)(.*?)(\s*)$`)
)

func trimWild(tok string) string {
	for {
		l := strings.ToLower(tok)
		if strings.HasSuffix(l, ".x") {
			tok = tok[:len(tok)-2]
			continue
		}
		return tok
	}
}

// templatesOf turns range strings into templates with %s in place of each
// version-like token.
func templatesOf(ranges []string) []string {
	seen := map[string]bool{}
	var out []string
	for _, r := range ranges {
		n := 0
		t := verTok.ReplaceAllStringFunc(r, func(tok string) string {
			core := trimWild(tok)
			n++
			return "\x00" + tok[len(core):]
		})
		if n == 0 || n > 4 || strings.Contains(r, "%") {
			continue
		}
		t = strings.ReplaceAll(t, "\x00", "%s")
		if !seen[t] {
			seen[t] = true
			out = append(out, t)
		}
	}
	sort.Strings(out)
	if len(out) > 400 {
		out = out[:400]
	}
	return out
}

func fill(p *prng, tmpl string, cands []string) string {
	var sb strings.Builder
	for {
		i := strings.Index(tmpl, "%s")
		if i < 0 {
			sb.WriteString(tmpl)
			return sb.String()
		}
		sb.WriteString(tmpl[:i])
		sb.WriteString(strings.TrimSpace(pickS(p, cands)))
		tmpl = tmpl[i+2:]
	}
}

type family struct {
	cands []string // every spelling, valid or not
	vs    []string // spellings accepted by NewVersion
	rs    []string // instantiated templates accepted by NewVersionRange
	rx    []string // further constructor texts for NewVersionRange, accepted or not (cut-off ranges)
}

var prefixRe = regexp.MustCompile(`^[^0-9]{1,12}`)

// prefixOf returns what a version text carries before its first digit.
func prefixOf(s string) string {
	return prefixRe.FindString(strings.TrimLeft(s, " \t"))
}

func suffixOf(s string) string {
	if m := baseSplit.FindStringSubmatch(s); m != nil {
		return m[3]
	}
	return ""
}

var (
	alphaRun   = regexp.MustCompile(`[A-Za-z]+`)
	digitRun   = regexp.MustCompile(`[0-9]+`)
	stockWords = []string{"foo", "bar", "qux", "kappa", "omega", "zeta", "aa", "zz", "x", "sp", "dev", "M", "snapshot"}
)

// wordsOf harvests the alphabetic tokens that occur in an ecosystem's versions.
func wordsOf(versions []string) []string {
	seen := map[string]bool{}
	var out []string
	for _, v := range versions {
		for _, w := range alphaRun.FindAllString(v, -1) {
			if len(w) <= 10 && !seen[w] && w != "v" && w != "V" {
				seen[w] = true
				out = append(out, w)
			}
		}
	}
	sort.Strings(out)
	return append(out, stockWords...)
}

// replaceNth replaces the n-th match of re in s.
func replaceNth(re *regexp.Regexp, s string, n int, with string) string {
	locs := re.FindAllStringIndex(s, -1)
	if n < 0 || n >= len(locs) {
		return s
	}
	return s[:locs[n][0]] + with + s[locs[n][1]:]
}

// oddSpellings derives unusual but plausible variants of a suffix-bearing
// version: renamed qualifier words, numbers beyond 64 bits, signed numbers.
func (g *Gen) oddSpellings(p *prng, name, base string) []string {
	var out []string
	words := g.words[name]
	m := baseSplit.FindStringSubmatch(base)
	head, suf := base, ""
	if m != nil {
		head, suf = m[1]+m[2], m[3]
	}
	if suf == "" {
		// borrow a suffix shape from another corpus version
		for k := 0; k < 6 && suf == ""; k++ {
			suf = suffixOf(pickS(p, g.class[name].versions))
		}
	}
	if suf != "" {
		na := len(alphaRun.FindAllString(suf, -1))
		for k := 0; k < 3 && na > 0 && len(words) > 0; k++ {
			out = append(out, head+replaceNth(alphaRun, suf, p.n(na), pickS(p, words)))
		}
		nd := len(digitRun.FindAllString(suf, -1))
		if nd > 0 {
			i := p.n(nd)
			out = append(out, head+replaceNth(digitRun, suf, i, "20240101000000000001"))
			out = append(out, head+replaceNth(digitRun, suf, i, "-7"))
			out = append(out, head+replaceNth(digitRun, suf, i, "007"))
			// neighbours of the number: n+1, and the digit strings n1, n2, 1n
			d := digitRun.FindAllString(suf, -1)[i]
			if len(d) <= 6 {
				if n, err := strconv.Atoi(d); err == nil {
					out = append(out, head+replaceNth(digitRun, suf, i, strconv.Itoa(n+1)))
				}
				out = append(out, head+replaceNth(digitRun, suf, i, d+"1"), head+replaceNth(digitRun, suf, i, d+"2"), head+replaceNth(digitRun, suf, i, "1"+d))
			}
		} else {
			out = append(out, head+suf+".-7", head+suf+".20240101000000000001", head+suf+"7")
		}
		out = append(out, head+suf)
	}
	// the same suffix behind another separator (1.0-rc.1 / 1.0+rc.1 / 1.0_rc.1)
	if len(suf) > 1 && strings.ContainsRune("-+_~.", rune(suf[0])) {
		for _, sep := range []byte("-+_~") {
			if sep != suf[0] {
				out = append(out, head+string(sep)+suf[1:])
			}
		}
	}
	if m != nil {
		// calendar versions: other days of the same year (a zone's DST switch, a
		// leap day, a month boundary are particular days)
		if c := strings.Split(m[2], "."); len(c) == 3 && len(c[0]) == 4 && (strings.HasPrefix(c[0], "19") || strings.HasPrefix(c[0], "20")) {
			for k := 0; k < 60; k++ {
				out = append(out, fmt.Sprintf("%s%s.%02d.%02d%s", m[1], c[0], 1+p.n(12), 1+p.n(31), m[3]))
			}
		}
		nd := len(digitRun.FindAllString(m[2], -1))
		out = append(out, m[1]+replaceNth(digitRun, m[2], p.n(nd), "18446744073709551617")+m[3])
		// boundary numbers: a component at 2^k-1, 2^k, 2^k+1 (field widths, table
		// sizes and off-by-one guards live there)
		if comps := strings.Split(m[2], "."); p.chance(1, 3) {
			i := p.n(len(comps))
			k := []uint{7, 8, 10, 12, 15, 16, 20, 24, 31, 32}[p.n(10)]
			for _, d := range []int64{-1, 0, 1} {
				c := append([]string(nil), comps...)
				c[i] = strconv.FormatInt(int64(1)<<k+d, 10)
				out = append(out, m[1]+strings.Join(c, ".")+m[3])
				if len(c) > 2 && i > 0 {
					out = append(out, m[1]+strings.Join(c[:i+1], ".")+m[3], m[1]+strings.Join(c[:i], "."))
				}
			}
		}
		// carry pairs: a.(b-1).(c+2^k) next to a.b.c - what a bit-packed key
		// with too narrow a field confuses with the base
		if comps := strings.Split(m[2], "."); len(comps) >= 2 && p.chance(1, 3) {
			i := 1 + p.n(len(comps)-1)
			hi, e1 := strconv.Atoi(comps[i-1])
			lo, e2 := strconv.Atoi(comps[i])
			if e1 == nil && e2 == nil && hi >= 1 && hi < 1<<20 && lo < 1<<20 {
				for _, k := range []uint{8, 10, 12, 16, 20, 21, 22, 24, 31, 32} {
					if p.chance(1, 3) {
						c := append([]string(nil), comps...)
						c[i-1] = strconv.Itoa(hi - 1)
						c[i] = strconv.Itoa(lo + 1<<k)
						out = append(out, m[1]+strings.Join(c, ".")+m[3])
						c[i-1] = strconv.Itoa(hi)
						out = append(out, m[1]+strings.Join(c, ".")+m[3])
					}
				}
			}
		}
		// component-count ladder: a few more components than usual, around the
		// capacities a parser might pre-size for (8, 16, 32)
		if p.chance(1, 2) {
			for c := 0; c < 3; c++ {
				k := []int{1, 2, 3, 4, 5, 6, 7, 8, 9, 12, 13, 14, 15, 16, 29, 30, 31}[p.n(17)]
				out = append(out, m[1]+m[2]+strings.Repeat([]string{".1", ".0", ".7"}[p.n(3)], k)+m[3])
			}
		}
		// exact-length ladder for the suffix: pad it to lengths around powers of
		// two, and add neighbours that differ only in the last byte
		if suf != "" && p.chance(1, 2) {
			target := []int{15, 16, 17, 31, 32, 33, 34, 63, 64, 65, 127, 128, 129}[p.n(13)]
			padded := suf
			for len(padded) < target {
				padded += "." + []string{"a", "b7", "x", "0", "z9"}[p.n(5)]
			}
			if len(padded) > target && target > len(suf)+1 {
				padded = padded[:target]
				if c := padded[len(padded)-1]; c == '.' || c == '-' || c == '+' {
					padded = padded[:len(padded)-1] + "k"
				}
			}
			out = append(out, head+padded)
			for _, c := range []byte{'1', '4', '8', 'c', 'm', 'y'} {
				out = append(out, head+padded[:len(padded)-1]+string(c))
			}
		}
		// very long inputs take their own paths (fixed-size buffers, length
		// thresholds): a long numeric core and a long suffix
		if p.chance(1, 3) {
			out = append(out, m[1]+m[2]+strings.Repeat(".1", 60+p.n(120))+m[3])
			if suf != "" {
				out = append(out, m[1]+m[2]+suf+strings.Repeat(".x1", 40+p.n(80)))
			}
		}
	}
	return out
}

func (g *Gen) family(p *prng, name string) family {
	base := pickS(p, g.class[name].versions)
	if p.chance(1, 5) {
		// a zero-major (or 0.0.z) base: caret, tilde and compatibility rules
		// special-case it, and the corpora have few such versions
		if m := baseSplit.FindStringSubmatch(base); m != nil {
			comps := strings.Split(m[2], ".")
			if len(comps) >= 2 && len(comps[0]) <= 4 {
				comps[0] = "0"
				if p.chance(1, 3) && len(comps) >= 3 {
					comps[1] = "0"
				}
				if z := m[1] + strings.Join(comps, ".") + m[3]; tryV(EcoByName(name), z) {
					base = z
				}
			}
		}
	}
	return g.familyOf(p, name, base)
}

// familyOf builds the family of spellings around a given base string (which
// need not be valid in this ecosystem: related texts meeting across
// ecosystems is the point of sharing a base between pools).
func (g *Gen) familyOf(p *prng, name, base string) family {
	ec := g.class[name]
	e := EcoByName(name)
	var f family
	add := func(s string) {
		for _, c := range f.cands {
			if c == s {
				return
			}
		}
		f.cands = append(f.cands, s)
	}
	add(base)
	if m := baseSplit.FindStringSubmatch(base); m != nil {
		pre, core, suf := m[1], m[2], m[3]
		comps := strings.Split(core, ".")
		join := func(c []string) string { return strings.Join(c, ".") }
		add(pre + core)
		for k := 1; k < len(comps); k++ {
			add(pre + join(comps[:k]) + suf)
			add(pre + join(comps[:k]))
			z := append([]string(nil), comps...)
			for i := k; i < len(z); i++ {
				z[i] = "0"
			}
			add(pre + join(z) + suf)
			add(pre + join(z))
		}
		add(pre + core + ".0" + suf)
		add(pre + core + ".0")
		for i := range comps {
			n, err := strconv.Atoi(comps[i])
			if err != nil || n > 1<<30 {
				continue
			}
			b := append([]string(nil), comps...)
			b[i] = strconv.Itoa(n + 1)
			add(pre + join(b) + suf)
			for j := i + 1; j < len(b); j++ {
				b[j] = "0"
			}
			add(pre + join(b))
			if i+1 < len(b) {
				add(pre + join(b) + suf)
			}
			if n > 0 {
				b[i] = strconv.Itoa(n - 1)
				add(pre + join(b))
			}
		}
		for k := 0; k < 3; k++ {
			if s2 := suffixOf(pickS(p, ec.versions)); s2 != "" && s2 != suf {
				add(pre + core + s2)
			}
		}
		// prefix grafts: the text other versions of this ecosystem carry before
		// their first digit (release-, rel-, v, an epoch ...)
		for k := 0; k < 4; k++ {
			if p2 := prefixOf(pickS(p, ec.versions)); p2 != "" && p2 != pre {
				add(p2 + core + suf)
				add(p2 + core)
			}
		}
		if suf != "" {
			add(pre + core + strings.ToUpper(suf))
			add(pre + core + strings.ToLower(suf))
		}
		lz := append([]string(nil), comps...)
		lz[len(lz)-1] = "0" + lz[len(lz)-1]
		add(pre + join(lz) + suf)
		if suf != "" {
			// a trailing number of the suffix dropped, zeroed or doubled: "rc1",
			// "rc", "rc0", "rc00" (an absent number and a zero are a classic tie)
			bare := strings.TrimRight(base, "0123456789")
			if bare != base && len(bare) > len(pre)+len(core) {
				add(bare)
				add(bare + "0")
				add(bare + "00")
			} else if bare == base {
				add(base + "0")
				add(base + "00")
			}
		}
		for _, o := range g.oddSpellings(p, name, base) {
			add(o)
		}
		add("v" + strings.TrimLeft(base, "vV "))
		add(" " + base + " ")
	} else {
		for k := 0; k < 4; k++ {
			add(mutate(p, base))
		}
	}
	// keep the base first, shuffle the rest, cap
	rest := f.cands[1:]
	for i := len(rest) - 1; i > 0; i-- {
		j := p.n(i + 1)
		rest[i], rest[j] = rest[j], rest[i]
	}
	if len(f.cands) > 60 {
		f.cands = f.cands[:60]
	}
	for _, c := range f.cands {
		if len(f.vs) < 12 && tryV(e, c) {
			f.vs = append(f.vs, c)
		}
	}
	tm := g.templates[name]
	addR := func(r string) {
		if len(r) > 800 || len(f.rs) >= 14 || !tryR(e, r) {
			return
		}
		for _, x := range f.rs {
			if x == r {
				return
			}
		}
		f.rs = append(f.rs, r)
	}
	// sibling ranges: the same template over several related spellings
	for t := p.rng(1, 4); t > 0 && len(tm) > 0; t-- {
		tmpl := g.pickTemplate(p, name)
		for k := p.rng(2, 5); k > 0; k-- {
			addR(fill(p, tmpl, f.cands))
		}
	}
	for tries := 0; tries < 20 && len(f.rs) < 6 && len(tm) > 0; tries++ {
		addR(fill(p, pickS(p, tm), f.cands))
	}
	// long compounds: many parts joined by a separator this ecosystem's own
	// ranges use (size thresholds are a classic place for a special path)
	if seps := g.seps[name]; len(seps) > 0 && len(f.rs) > 0 {
		for c := p.rng(1, 2); c > 0; c-- {
			sep := pickS(p, seps)
			var parts []string
			for k := p.rng(3, 9); k > 0; k-- {
				part := pickS(p, f.rs)
				if p.chance(1, 3) && len(tm) > 0 {
					part = fill(p, pickS(p, tm), f.cands)
				}
				if strings.Contains(part, strings.TrimSpace(sep)) && strings.TrimSpace(sep) != "" {
					continue
				}
				parts = append(parts, part)
			}
			if len(parts) >= 2 && p.chance(1, 3) {
				// empty items: a run of separators between two parts (slot counts
				// and constraint counts then differ)
				i := 1 + p.n(len(parts)-1)
				gap := make([]string, p.rng(1, 12))
				parts = append(parts[:i], append(gap, parts[i:]...)...)
			}
			if len(parts) >= 3 {
				r := strings.Join(parts, sep)
				if len(r) <= 200 && tryR(e, r) {
					f.rs = append(f.rs, r)
					// a twin that shares every leading part and differs in the
					// last one only
					if last := parts[len(parts)-1]; last != "" && len(tm) > 0 {
						for tries := 0; tries < 6; tries++ {
							other := fill(p, pickS(p, tm), f.cands)
							if p.chance(1, 2) {
								other = pickS(p, f.rs)
							}
							if other == last || other == r || (strings.TrimSpace(sep) != "" && strings.Contains(other, strings.TrimSpace(sep))) {
								continue
							}
							r2 := strings.Join(append(append([]string(nil), parts[:len(parts)-1]...), other), sep)
							if len(r2) <= 200 && tryR(e, r2) {
								// constructor-only: it reaches the library for the
								// first time from a task, after its twin was built
								f.rx = append(f.rx, r2)
								break
							}
						}
					}
				}
			}
		}
	}
	// ladders: a conjunction of many lower bounds in ascending order and one upper
	// bound, over the family's own versions (what accumulated constraints look
	// like); a version between the last two rungs violates exactly one clause.
	// Constructor-only, so that whatever a range starts when it is built is still
	// under way when the task that built it asks its first question.
	if seps := g.seps[name]; len(seps) > 0 && len(f.vs) >= 4 {
		lo, hi := "", ""
		for _, t := range tm {
			if strings.Count(t, "%s") != 1 {
				continue
			}
			switch templateSig(t) {
			case ">=":
				lo = t
			case "<":
				hi = t
			}
		}
		if lo != "" && hi != "" {
			type pv struct {
				s string
				v any
			}
			var ps []pv
			for _, s := range f.cands {
				s = strings.TrimSpace(s)
				if v, err := guardVersion(e, s); err == nil && v != nil && !strings.ContainsAny(s, " ,|") {
					ps = append(ps, pv{s, v})
				}
			}
			sort.SliceStable(ps, func(i, j int) bool {
				return guardB(func() byte {
					if e.Compare(ps[i].v, ps[j].v) < 0 {
						return 1
					}
					return 0
				}) == 1
			})
			// one spelling per distinct value
			uniq := ps[:0]
			for _, x := range ps {
				if len(uniq) == 0 || guardB(func() byte {
					if e.Compare(uniq[len(uniq)-1].v, x.v) != 0 {
						return 1
					}
					return 0
				}) == 1 {
					uniq = append(uniq, x)
				}
			}
			ps = uniq
			if len(ps) > 14 {
				ps = ps[len(ps)-14:]
			}
			for si := 0; si < len(seps) && si < 3 && len(ps) >= 4; si++ {
				// (every separator of the ecosystem in turn: which of them mean
				// "and" is not known here)
				sep := seps[(si+p.n(len(seps)))%len(seps)]
				var parts []string
				// a small family repeats its lowest rung at the front: the list has
				// to be long, and the top rungs have to stay unique
				for k := len(ps); k < 10; k++ {
					parts = append(parts, strings.Replace(lo, "%s", ps[0].s, 1))
				}
				for _, x := range ps[:len(ps)-1] {
					parts = append(parts, strings.Replace(lo, "%s", x.s, 1))
				}
				if p.chance(1, 2) {
					// the upper bound first, as often written
					parts = append([]string{strings.Replace(hi, "%s", ps[len(ps)-1].s, 1)}, parts...)
				} else {
					parts = append(parts, strings.Replace(hi, "%s", ps[len(ps)-1].s, 1))
				}
				r := strings.Join(parts, sep)
				if len(r) <= 400 && tryR(e, r) {
					f.rx = append(f.rx, r)
				}
			}
		}
	}
	// cut-off ranges: a range text that stops right after an operator or a
	// separator (what a template with an empty bound produces)
	for k := 0; k < 4 && len(f.rs) > 0; k++ {
		r := pickS(p, f.rs)
		locs := cutRe.FindAllStringIndex(r, -1)
		if len(locs) == 0 {
			continue
		}
		l := locs[p.n(len(locs))]
		if l[1] >= len(r) || l[0] == 0 {
			continue
		}
		f.rx = append(f.rx, r[:l[1]])
	}
	return f
}

// cutRe finds the places a range text can be cut off at: after a run of
// operator characters or after a separator.
var cutRe = regexp.MustCompile(`[<>=!~^]+|[,|&;]+\s*|\s+`)

var versOps = []string{">=", "<=", ">", "<", "=", "!="}

// versSynth builds VERS ranges over a family's spellings and pairs the same
// constraint text with more than one scheme.
func (g *Gen) versSynth(p *prng, name string, f *family) [][2]string {
	var own string
	for s, en := range schemeEco {
		if en == name {
			own = s
		}
	}
	if own == "" || len(f.vs) == 0 {
		return nil
	}
	clean := func(s string) string { return strings.TrimSpace(s) }
	n := p.rng(1, 4)
	if p.chance(1, 4) {
		n = p.rng(4, 26) // long constraint lists take their own paths
	}
	var parts []string
	var used []string
	for i := 0; i < n; i++ {
		v := clean(pickS(p, f.vs))
		if v == "" || strings.ContainsAny(v, "|/ ") {
			continue
		}
		used = append(used, v)
		parts = append(parts, versOps[p.n(len(versOps))]+v)
	}
	if len(parts) == 0 {
		return nil
	}
	if p.chance(1, 3) {
		for i := len(parts) - 1; i > 0; i-- {
			j := p.n(i + 1)
			parts[i], parts[j] = parts[j], parts[i]
		}
	}
	text := strings.Join(parts, "|")
	schemes := []string{own}
	// another scheme whose ecosystem accepts every version used
	var names []string
	for s := range schemeEco {
		names = append(names, s)
	}
	sort.Strings(names)
	for tries := 0; tries < 6 && len(schemes) < 3; tries++ {
		s := names[p.n(len(names))]
		if s == own {
			continue
		}
		e2 := EcoByName(schemeEco[s])
		if e2 == nil {
			continue
		}
		ok := true
		for _, v := range used {
			if !tryV(e2, v) {
				ok = false
			}
		}
		if ok {
			schemes = append(schemes, s)
		}
	}
	// a twin: the same constraints in another order (a cache that canonicalises
	// its key by sorting must not change what the written order means), and a
	// tie variant: one bound repeated with the neighbouring operator
	texts := []string{text}
	if len(parts) >= 2 && p.chance(1, 2) {
		tw := append([]string(nil), parts...)
		for i := len(tw) - 1; i > 0; i-- {
			j := p.n(i + 1)
			tw[i], tw[j] = tw[j], tw[i]
		}
		texts = append(texts, strings.Join(tw, "|"))
	}
	if p.chance(1, 3) {
		i := p.n(len(parts))
		tie := ""
		switch {
		case strings.HasPrefix(parts[i], ">="):
			tie = ">" + parts[i][2:]
		case strings.HasPrefix(parts[i], "<="):
			tie = "<" + parts[i][2:]
		case strings.HasPrefix(parts[i], ">"):
			tie = ">=" + parts[i][1:]
		case strings.HasPrefix(parts[i], "<"):
			tie = "<=" + parts[i][1:]
		}
		if tie != "" {
			a := append(append([]string(nil), parts...), tie)
			b := append([]string{tie}, parts...)
			texts = append(texts, strings.Join(a, "|"), strings.Join(b, "|"))
		}
	}
	// malformed variants: a clause that lost its operator (a bare version, legal
	// in the VERS grammar's prose and rejected here) or its version, somewhere
	// after the first clause; the call fails, but only after the earlier clauses
	// went through whatever machinery a list of this length uses
	if len(parts) >= 2 && p.chance(1, 3) {
		bad := append([]string(nil), parts...)
		i := 1 + p.n(len(bad)-1)
		if p.chance(1, 2) {
			bad[i] = strings.TrimLeft(bad[i], "<>=!")
		} else {
			bad[i] = bad[i][:len(bad[i])-len(strings.TrimLeft(bad[i], "<>=!"))]
		}
		texts = append(texts, strings.Join(bad, "|"))
	}
	var out [][2]string
	for _, s := range schemes {
		for _, tx := range texts {
			for k := 0; k < 2; k++ {
				probe := clean(pickS(p, f.vs))
				if k == 1 && len(used) > 0 {
					probe = used[p.n(len(used))] // exactly on a bound
				}
				out = append(out, [2]string{"vers:" + s + "/" + tx, probe})
			}
		}
	}
	return out
}

// ---- adversarial inputs for small hashed tables ----
//
// A direct-mapped or bucketed cache only misbehaves when two live keys share a
// slot. Waiting for random corpus strings to collide in a 256-slot table costs
// a factor of 256; instead a "collide" run picks constructor texts that share a
// bucket under one of the hash functions a Go programmer would plausibly reach
// for, at a plausible power-of-two table size.

func hFNV1a32(s string) uint64 {
	h := uint32(2166136261)
	for i := 0; i < len(s); i++ {
		h = (h ^ uint32(s[i])) * 16777619
	}
	return uint64(h)
}
func hFNV132(s string) uint64 {
	h := uint32(2166136261)
	for i := 0; i < len(s); i++ {
		h = (h * 16777619) ^ uint32(s[i])
	}
	return uint64(h)
}
func hFNV1a64(s string) uint64 {
	h := uint64(14695981039346656037)
	for i := 0; i < len(s); i++ {
		h = (h ^ uint64(s[i])) * 1099511628211
	}
	return h
}
func hDJB2(s string) uint64 {
	h := uint64(5381)
	for i := 0; i < len(s); i++ {
		h = h*33 + uint64(s[i])
	}
	return h
}
func hJava(s string) uint64 {
	h := uint32(0)
	for i := 0; i < len(s); i++ {
		h = h*31 + uint32(s[i])
	}
	return uint64(h)
}
func hSum(s string) uint64 {
	h := uint64(0)
	for i := 0; i < len(s); i++ {
		h += uint64(s[i])
	}
	return h
}

var crcTable = func() (t [256]uint32) {
	for i := range t {
		c := uint32(i)
		for k := 0; k < 8; k++ {
			if c&1 == 1 {
				c = (c >> 1) ^ 0xedb88320
			} else {
				c >>= 1
			}
		}
		t[i] = c
	}
	return
}()

func hCRC32(s string) uint64 {
	c := ^uint32(0)
	for i := 0; i < len(s); i++ {
		c = crcTable[byte(c)^s[i]] ^ (c >> 8)
	}
	return uint64(^c)
}

// hash/fnv is what Go code reaches for first; the others get a small share
var hashFns = []func(string) uint64{hFNV1a32, hFNV1a32, hFNV1a32, hFNV1a64, hFNV1a64, hFNV1a64, hFNV1a64, hFNV132, hCRC32, hDJB2, hJava, hSum}

// colliders returns up to n distinct valid texts (versions if ranges is false)
// that share a bucket under a seeded choice of hash function and table size,
// after the trimming a constructor typically applies.
func (g *Gen) colliders(p *prng, name string, ranges bool, n int) []string {
	ec := g.class[name]
	e := EcoByName(name)
	src := ec.versions
	ok := tryV
	if ranges {
		src, ok = ec.ranges, tryR
	}
	if len(src) == 0 {
		return nil
	}
	if !ranges && p.chance(1, 3) {
		if out := g.tagColliders(p, name, n); len(out) >= 2 {
			return out
		}
	}
	h := hashFns[p.n(len(hashFns))]
	// texts that collide under a 4096-entry mask collide under every smaller
	// power-of-two table as well
	mask := uint64(4096 - 1)
	mod := p.chance(1, 8) // some tables use a prime-ish modulus instead of a mask
	var m uint64 = mask + 1
	if mod {
		m = []uint64{31, 61, 127, 251, 509, 1021}[p.n(6)]
	}
	// how the table turns the hash into a slot: low bits, xor-folded halves,
	// or (for modulus tables) the remainder
	fold := []int{0, 0, 0, 1, 1, 2}[p.n(6)]
	bucket := func(s string) uint64 {
		x := h(strings.TrimSpace(s))
		if mod {
			return x % m
		}
		switch fold {
		case 1:
			x ^= x >> 32
		case 2:
			x ^= x >> 16
		}
		return x & mask
	}
	buckets := map[uint64][]string{}
	seen := map[string]bool{}
	add := func(s string) {
		if !seen[s] && len(s) <= 64 {
			seen[s] = true
			b := bucket(s)
			buckets[b] = append(buckets[b], s)
		}
	}
	for i := 0; i < 900; i++ {
		s := pickS(p, src)
		add(s)
		if nd := len(digitRun.FindAllString(s, -1)); nd > 0 {
			add(replaceNth(digitRun, s, p.n(nd), strconv.Itoa(p.n(400))))
		}
	}
	// visit buckets in a canonical order, best first
	keys := make([]uint64, 0, len(buckets))
	for k := range buckets {
		keys = append(keys, k)
	}
	sort.Slice(keys, func(i, j int) bool {
		if len(buckets[keys[i]]) != len(buckets[keys[j]]) {
			return len(buckets[keys[i]]) > len(buckets[keys[j]])
		}
		return keys[i] < keys[j]
	})
	start := 0
	if len(keys) > 4 {
		start = p.n(4)
	}
	for _, k := range keys[start:] {
		var out []string
		for _, s := range buckets[k] {
			if ok(e, s) {
				out = append(out, s)
				if len(out) == n {
					break
				}
			}
		}
		if len(out) >= 2 {
			return out
		}
	}
	return nil
}

// templateSig is what is left of a template when the version slots and blanks
// are removed: its operator shape.
func templateSig(t string) string {
	return strings.Join(strings.Fields(strings.ReplaceAll(t, "%s", "")), "")
}

// pickTemplate samples uniformly over operator shapes first, then over the
// templates of that shape, so that a rarely used operator gets the same share
// as a common one.
func (g *Gen) pickTemplate(p *prng, name string) string {
	sigs := g.sigs[name]
	if len(sigs) == 0 {
		return pickS(p, g.templates[name])
	}
	return pickS(p, g.bySig[name][pickS(p, sigs)])
}

// liveTemplates keeps the templates that, filled with a valid version, give a
// range that contains at least one of a few probe versions. Ecosystems that
// accept any text as a range would otherwise drown their real operators in
// templates that can never match anything.
func liveTemplates(e Eco, tm []string, versions []string) []string {
	if len(versions) == 0 {
		return tm
	}
	probes := versions
	if len(probes) > 12 {
		probes = probes[:12]
	}
	var live []string
	for _, t := range tm {
		ok := false
		for k := 0; k < 3 && k < len(probes) && !ok; k++ {
			r, err := guardRange(e, strings.ReplaceAll(t, "%s", strings.TrimSpace(probes[k])))
			if err != nil || r == nil {
				continue
			}
			for _, pv := range probes {
				if v, err := guardVersion(e, pv); err == nil && v != nil && guardContains(e, r, v) {
					ok = true
					break
				}
			}
		}
		if ok {
			live = append(live, t)
		}
	}
	if len(live) < 4 {
		return tm
	}
	return live
}

func guardRange(e Eco, s string) (r any, err error) {
	defer func() {
		if recover() != nil {
			r, err = nil, errPanic
		}
	}()
	return e.NewRange(s)
}

func guardVersion(e Eco, s string) (v any, err error) {
	defer func() {
		if recover() != nil {
			v, err = nil, errPanic
		}
	}()
	return e.NewVersion(s)
}

func guardContains(e Eco, r, v any) (ok bool) {
	defer func() {
		if recover() != nil {
			ok = false
		}
	}()
	return e.Contains(r, v)
}

var hash32Fns = []func(string) uint64{hFNV1a32, hFNV1a32, hFNV132, hCRC32, hJava, func(s string) uint64 { return hDJB2(s) & 0xffffffff }}

// tagColliders searches for valid version texts with EQUAL full 32-bit hashes
// (a birthday search over ~150 000 numeric variations of corpus versions): a
// table that trusts a 32-bit hash as the identity of its key, without comparing
// the text, confuses exactly such a pair. Wider tags (40+ bits) are out of reach
// of a per-run search and are a stated limit.
func (g *Gen) tagColliders(p *prng, name string, n int) []string {
	ec := g.class[name]
	e := EcoByName(name)
	if len(ec.versions) == 0 {
		return nil
	}
	h := hash32Fns[p.n(len(hash32Fns))]
	// a few numeric skeletons: corpus versions with every digit run replaced
	var skel []string
	for tries := 0; tries < 40 && len(skel) < 4; tries++ {
		s := strings.TrimSpace(pickS(p, ec.versions))
		if len(s) > 24 || len(digitRun.FindAllString(s, -1)) < 2 {
			continue
		}
		skel = append(skel, digitRun.ReplaceAllString(s, "\x00"))
	}
	if len(skel) == 0 {
		return nil
	}
	seen := make(map[uint32]string, 1<<17)
	var buf strings.Builder
	for i := 0; i < 150000; i++ {
		sk := skel[i%len(skel)]
		buf.Reset()
		for k := 0; k < len(sk); k++ {
			if sk[k] == 0 {
				buf.WriteString(strconv.Itoa(p.n(100)))
			} else {
				buf.WriteByte(sk[k])
			}
		}
		s := buf.String()
		k := uint32(h(s))
		if o, ok := seen[k]; ok && o != s {
			if tryV(e, s) && tryV(e, o) {
				return []string{o, s}
			}
			continue
		}
		seen[k] = s
	}
	return nil
}

// versColliders returns VERS range texts (numeric variations of corpus ranges)
// that share a bucket under a seeded hash function at a 4096-entry mask.
func (g *Gen) versColliders(p *prng, n int) []string {
	h := hashFns[p.n(len(hashFns))]
	const mask = 4096 - 1
	buckets := map[uint64][]string{}
	seen := map[string]bool{}
	var order []uint64
	add := func(s string) {
		if seen[s] || len(s) > 100 {
			return
		}
		seen[s] = true
		b := h(s) & mask
		if len(buckets[b]) == 0 {
			order = append(order, b)
		}
		buckets[b] = append(buckets[b], s)
	}
	for i := 0; i < 1200; i++ {
		sch := g.schemes[p.n(len(g.schemes))]
		if _, ok := schemeEco[sch]; !ok {
			continue
		}
		s := pickS(p, g.versBy[sch])
		add(s)
		if nd := len(digitRun.FindAllString(s, -1)); nd > 0 {
			add(replaceNth(digitRun, s, p.n(nd), strconv.Itoa(p.n(400))))
		}
	}
	for _, b := range order {
		if len(buckets[b]) >= 2 {
			out := buckets[b]
			if len(out) > n {
				out = out[:n]
			}
			return out
		}
	}
	return nil
}
