package harness

import (
	"fmt"
	"os"
	"runtime"
	"runtime/debug"
	"sync"
	"time"

	"github.com/alowayed/go-univers/zz_sim/simrt"
)

type opRec struct {
	start, end uint64
	res        string
	races      int
}

// ExecOptions controls one simulated run.
type ExecOptions struct {
	RaceLog      string // GORACE log_path prefix (file is <prefix>.<pid>)
	KeepSwitches bool
	KeepResults  bool
	Parallel     bool // real goroutines instead of the simulator (cross-check, not simulation)
	Lifetimes    bool // the tree uses finalizers / cleanups / weak / unique: drain them at run boundaries
}

type raceLogReader struct {
	path string
	off  int64
}

func (r *raceLogReader) readNew() string {
	if r.path == "" {
		return ""
	}
	f, err := os.Open(r.path)
	if err != nil {
		return ""
	}
	defer f.Close()
	st, err := f.Stat()
	if err != nil || st.Size() <= r.off {
		return ""
	}
	buf := make([]byte, st.Size()-r.off)
	n, _ := f.ReadAt(buf, r.off)
	r.off += int64(n)
	return string(buf[:n])
}

var raceLog raceLogReader

func InitRaceLog(prefix string) {
	if prefix != "" {
		raceLog.path = fmt.Sprintf("%s.%d", prefix, os.Getpid())
	}
}

// Execute runs one spec under the simulator and compares against exp.
func Execute(c *Case, opt ExecOptions) (rr RunResult) {
	spec := &c.Spec
	exp := &c.Exp
	t0 := time.Now()
	rr.Index = spec.Index
	rr.Seed = spec.Seed
	rr.Policy = spec.Sched.Policy
	rr.Tasks = len(spec.Tasks)
	rr.OpKinds = map[string]int{}
	for _, ep := range spec.Ecos {
		rr.EcoNames = append(rr.EcoNames, ep.Name)
	}
	ecos, err := resolveEcos(spec)
	if err != nil {
		rr.HarnessErr = err.Error()
		return rr
	}
	racesBefore := simrt.RaceErrors()

	// --- build the shared pool (main goroutine; published to the tasks by the
	// go statements that start them). Nothing but the constructor runs on a
	// shared value before the concurrent phase, unless the spec pre-warms. ---
	sv := &sharedView{vs: make([][]any, len(ecos)), rs: make([][]any, len(ecos))}
	// sequential runs a phase that is not part of the concurrent workload. In
	// the simulator it still executes as a (single-task) simulated run, so that
	// goroutines the library may start are simulated tasks there as well and are
	// reaped when the phase ends.
	sequential := func(phase string, f func()) bool {
		if opt.Parallel {
			f()
			return true
		}
		st, _ := simrt.RunTasks(simrt.Sched{Policy: simrt.PolRTC, Seed: spec.Sched.Seed}, simrt.Faults{Seed: spec.Faults.Seed, ClockBase: spec.Faults.ClockBase}, []func(){f})
		if esc := simrt.Escaped(); esc != nil {
			rr.HarnessErr = fmt.Sprintf("panic escaped the %s phase: %v", phase, esc)
			return false
		}
		if st.Aborted != "" {
			rr.Stats.Aborted = st.Aborted
			rr.Stats.AbortDetail = phase + " phase (single task): " + st.AbortDetail
			return false
		}
		return true
	}
	if !sequential("pool construction", func() {
		for e, ep := range spec.Ecos {
			sv.vs[e] = make([]any, len(ep.Versions))
			sv.rs[e] = make([]any, len(ep.Ranges))
			for i, s := range ep.Versions {
				v, err := guardNew(func() (any, error) { return ecos[e].NewVersion(s) })
				if err != nil || v == nil {
					if i < len(exp.Pool[e].VStr) && exp.Pool[e].VStr[i] != noPool {
						rr.Mismatches = append(rr.Mismatches, Mismatch{Class: "history-dependence", Task: -1, OpIdx: i,
							What: "NewVersion(" + ep.Name + "," + quote(s) + ") for the shared pool", Want: "ok", Got: "err"})
					}
					continue
				}
				sv.vs[e][i] = v
			}
			for i, s := range ep.Ranges {
				r, err := guardNew(func() (any, error) { return ecos[e].NewRange(s) })
				if err != nil || r == nil {
					if i < len(exp.Pool[e].RStr) && exp.Pool[e].RStr[i] != noPool {
						rr.Mismatches = append(rr.Mismatches, Mismatch{Class: "history-dependence", Task: -1, OpIdx: i,
							What: "NewVersionRange(" + ep.Name + "," + quote(s) + ") for the shared pool", Want: "ok", Got: "err"})
					}
					continue
				}
				sv.rs[e][i] = r
			}
		}
		for i := range spec.Prewarm {
			got := evalOp(&spec.Prewarm[i], ecos, sv)
			if i < len(exp.Pre) && got != exp.Pre[i] {
				rr.Mismatches = append(rr.Mismatches, Mismatch{Class: "history-dependence", Task: 0, OpIdx: i, Op: &spec.Prewarm[i],
					What: "pre-warm operation on shared values", Want: exp.Pre[i], Got: got})
			}
		}
	}) {
		rr.WallNs = time.Since(t0).Nanoseconds()
		return rr
	}

	// --- concurrent phase ---
	recs := make([][]opRec, len(spec.Tasks))
	bodies := make([]func(), len(spec.Tasks))
	for t := range spec.Tasks {
		prog := spec.Tasks[t]
		recs[t] = make([]opRec, len(prog))
		myrecs := recs[t]
		bodies[t] = func() {
			var objs, next [simrt.MaxObjs]int32
			for i := range prog {
				o := opObjs(&prog[i], objs[:0])
				if len(o) > simrt.MaxObjs {
					o = o[:simrt.MaxObjs]
				}
				var nx []int32
				if i+1 < len(prog) {
					nx = opObjs(&prog[i+1], next[:0])
					if len(nx) > simrt.MaxObjs {
						nx = nx[:simrt.MaxObjs]
					}
				}
				simrt.OpBegin(int32(i), o, nx)
				myrecs[i].start = simrt.StepNow()
				before := simrt.RaceErrors()
				myrecs[i].res = evalOp(&prog[i], ecos, sv)
				myrecs[i].races = simrt.RaceErrors() - before
				myrecs[i].end = simrt.StepNow()
				simrt.OpEnd()
				if k := prog[i].K; k == KNewV || k == KNewR {
					simrt.GCBetweenOps()
				}
			}
		}
	}
	if !opt.Parallel {
		// goroutines the library started outside a run must have ended by now
		for i := 0; i < 200 && simrt.ForeignLive() > 0; i++ {
			runtime.Gosched()
		}
		if n := simrt.ForeignLive(); n > 0 {
			rr.HarnessErr = fmt.Sprintf("%d goroutine(s) started by library code outside a simulated run are still alive (a background worker?); the simulator cannot schedule goroutines that are not tasks", n)
			return rr
		}
	}
	old := debug.SetGCPercent(-1)
	var stats simrt.Stats
	var sw []simrt.Switch
	if opt.Parallel {
		var wg sync.WaitGroup
		start := make(chan struct{})
		for _, b := range bodies {
			wg.Add(1)
			go func() {
				defer wg.Done()
				<-start
				b()
			}()
		}
		close(start)
		wg.Wait()
	} else {
		stats, sw = simrt.RunTasks(spec.Sched, spec.Faults, bodies)
	}
	debug.SetGCPercent(old)
	if rr.Stats.Aborted == "" {
		rr.Stats = stats
	}
	if esc := simrt.Escaped(); esc != nil {
		rr.HarnessErr = fmt.Sprintf("panic escaped a task body: %v", esc)
	}
	if opt.KeepSwitches || stats.Aborted != "" {
		rr.Switches = sw
	}

	// --- oracles ---
	h := uint64(0x1234567)
	for t := range recs {
		for i := range recs[t] {
			r := &recs[t][i]
			rr.Ops++
			rr.OpKinds[spec.Tasks[t][i].K]++
			h = hashStep(h, uint64(t), uint64(i), r.start, r.end, r.res)
			if r.races > 0 {
				rr.RaceAttr = append(rr.RaceAttr, RaceAttr{Task: t + 1, OpIdx: i, Count: r.races})
			}
			if stats.Aborted != "" && r.res == "" {
				continue // operation never completed because the run was aborted
			}
			want := ""
			if t < len(exp.Ops) && i < len(exp.Ops[t]) {
				want = exp.Ops[t][i]
			}
			if r.res != want {
				rr.Mismatches = append(rr.Mismatches, Mismatch{Class: "result-mismatch", Task: t + 1, OpIdx: i, Op: &spec.Tasks[t][i],
					What: "result returned during the concurrent phase", Want: want, Got: r.res})
			}
		}
	}
	for _, s := range sw {
		h = hashStep(h, uint64(s.Task), uint64(s.Op), uint64(s.Lstep), uint64(s.To)<<8|uint64(s.Kind), "")
	}
	h = hashStep(h, stats.Steps, stats.Switches, stats.Fingerprint, 0, "")
	rr.EventHash = h
	if opt.KeepResults {
		rr.Results = make([][]string, len(recs))
		for t := range recs {
			for i := range recs[t] {
				rr.Results[t] = append(rr.Results[t], recs[t][i].res)
			}
		}
	}

	if stats.Aborted == "" {
		if !sequential("post-run observation", func() {
			// T2: the shared values must still behave exactly like fresh ones (O2).
			obs := observePool(spec, ecos, sv)
			comparePool(&rr, spec, "shared-value-changed", "shared pool after the run", exp.Pool, obs)
			// T1: fresh calls after this history must still give the reference results (O1).
			fv := &freshView{spec: spec, ecos: ecos}
			for t, prog := range spec.Tasks {
				for i := range prog {
					got := evalOp(&prog[i], ecos, fv)
					if t < len(exp.Ops) && i < len(exp.Ops[t]) && got != exp.Ops[t][i] {
						rr.Mismatches = append(rr.Mismatches, Mismatch{Class: "history-dependence", Task: t + 1, OpIdx: i, Op: &prog[i],
							What: "fresh sequential re-evaluation after the run", Want: exp.Ops[t][i], Got: got})
					}
				}
			}
			fobs := observePool(spec, ecos, fv)
			comparePool(&rr, spec, "history-dependence", "freshly parsed pool after the run", exp.Pool, fobs)

		}) && rr.HarnessErr != "" {
			rr.WallNs = time.Since(t0).Nanoseconds()
			return rr
		}
	}

	rr.RaceCount = simrt.RaceErrors() - racesBefore
	if rr.RaceCount > 0 {
		rr.RaceText = raceLog.readNew()
	}
	if opt.Lifetimes {
		// collect only after every other run, so that objects that died in one
		// run can still be found (through weak tables, free lists) by the next
		if spec.Index%2 == 1 {
			simrt.DrainFinalizers()
		}
	} else {
		runtime.GC()
	}
	rr.WallNs = time.Since(t0).Nanoseconds()
	return rr
}

func comparePool(rr *RunResult, spec *Spec, class, what string, want, got []PoolObs) {
	for e := range got {
		if e >= len(want) {
			break
		}
		name := spec.Ecos[e].Name
		w, g := want[e], got[e]
		for i := range g.VStr {
			if i < len(w.VStr) && g.VStr[i] != w.VStr[i] {
				rr.Mismatches = append(rr.Mismatches, Mismatch{Class: class, Task: -1, OpIdx: i,
					What: what + ": " + name + " version " + quote(spec.Ecos[e].Versions[i]) + " String()", Want: w.VStr[i], Got: g.VStr[i]})
			}
		}
		for i := range g.RStr {
			if i < len(w.RStr) && g.RStr[i] != w.RStr[i] {
				rr.Mismatches = append(rr.Mismatches, Mismatch{Class: class, Task: -1, OpIdx: i,
					What: what + ": " + name + " range " + quote(spec.Ecos[e].Ranges[i]) + " String()", Want: w.RStr[i], Got: g.RStr[i]})
			}
		}
		if g.Cmp != w.Cmp {
			n := len(spec.Ecos[e].Versions)
			for k := 0; k < len(g.Cmp) && k < len(w.Cmp); k++ {
				if g.Cmp[k] != w.Cmp[k] {
					rr.Mismatches = append(rr.Mismatches, Mismatch{Class: class, Task: -1, OpIdx: k,
						What: what + ": " + name + " Compare(" + quote(spec.Ecos[e].Versions[k/n]) + "," + quote(spec.Ecos[e].Versions[k%n]) + ")",
						Want: string(w.Cmp[k]), Got: string(g.Cmp[k])})
					break
				}
			}
		}
		if g.Cont != w.Cont {
			n := len(spec.Ecos[e].Versions)
			for k := 0; k < len(g.Cont) && k < len(w.Cont); k++ {
				if g.Cont[k] != w.Cont[k] {
					rr.Mismatches = append(rr.Mismatches, Mismatch{Class: class, Task: -1, OpIdx: k,
						What: what + ": " + name + " Contains(" + quote(spec.Ecos[e].Ranges[k/n]) + "," + quote(spec.Ecos[e].Versions[k%n]) + ")",
						Want: string(w.Cont[k]), Got: string(g.Cont[k])})
					break
				}
			}
		}
	}
}

func quote(s string) string { return fmt.Sprintf("%q", s) }

func guardNew(f func() (any, error)) (v any, err error) {
	defer func() {
		if r := recover(); r != nil {
			if simrt.IsAbort(r) {
				panic(r) // the run was aborted: unwind the task, do not go on
			}
			v, err = nil, fmt.Errorf("panic: %v", r)
		}
	}()
	return f()
}

func hashStep(h uint64, a, b, c, d uint64, s string) uint64 {
	const p = 0x100000001b3
	for _, x := range [...]uint64{a, b, c, d} {
		h = (h ^ x) * p
		h ^= h >> 29
	}
	for i := 0; i < len(s); i++ {
		h = (h ^ uint64(s[i])) * p
	}
	return h
}
