package harness

import (
	"fmt"
	"os"
	"runtime"
	"strconv"
	"strings"

	"github.com/alowayed/go-univers/pkg/spec/vers"
	"github.com/alowayed/go-univers/zz_sim/simrt"
)

// view supplies the Version / VersionRange values an operation works on.
type view interface {
	V(e, i int) (any, bool)
	R(e, i int) (any, bool)
}

// sharedView hands out the values of the shared pool.
type sharedView struct {
	vs [][]any
	rs [][]any
}

func (s *sharedView) V(e, i int) (any, bool) {
	if e >= len(s.vs) || i >= len(s.vs[e]) || s.vs[e][i] == nil {
		return nil, false
	}
	return s.vs[e][i], true
}
func (s *sharedView) R(e, i int) (any, bool) {
	if e >= len(s.rs) || i >= len(s.rs[e]) || s.rs[e][i] == nil {
		return nil, false
	}
	return s.rs[e][i], true
}

// freshView parses a private value from the pool text for every use.
type freshView struct {
	spec *Spec
	ecos []Eco
}

func (f *freshView) V(e, i int) (any, bool) {
	if e >= len(f.spec.Ecos) || i >= len(f.spec.Ecos[e].Versions) {
		return nil, false
	}
	v, err := f.ecos[e].NewVersion(f.spec.Ecos[e].Versions[i])
	return v, err == nil && v != nil
}
func (f *freshView) R(e, i int) (any, bool) {
	if e >= len(f.spec.Ecos) || i >= len(f.spec.Ecos[e].Ranges) {
		return nil, false
	}
	r, err := f.ecos[e].NewRange(f.spec.Ecos[e].Ranges[i])
	return r, err == nil && r != nil
}

func resolveEcos(spec *Spec) ([]Eco, error) {
	ecos := make([]Eco, len(spec.Ecos))
	for i, ep := range spec.Ecos {
		ecos[i] = EcoByName(ep.Name)
		if ecos[i] == nil {
			return nil, fmt.Errorf("unknown ecosystem %q", ep.Name)
		}
	}
	return ecos, nil
}

const noPool = "pool-value-missing"

// evalOp performs one operation and renders its observable outcome as text.
// Error message text is deliberately not part of the outcome, only error-ness.
// A panic of the code under test is an outcome too ("panic").
func evalOp(op *Op, ecos []Eco, vw view) string {
	res := evalOnce(op, ecos, vw)
	// a repeated operation must give the same outcome every time (counters with
	// thresholds, adaptive fast paths armed after N identical calls)
	for i := 1; i < op.N; i++ {
		simrt.ResetOpSteps() // the step budget is per single operation
		if r := evalOnce(op, ecos, vw); r != res {
			return res + "|repeat " + strconv.Itoa(i) + " gave " + r
		}
	}
	return res
}

func evalOnce(op *Op, ecos []Eco, vw view) (res string) {
	defer func() {
		if r := recover(); r != nil {
			if simrt.IsAbort(r) {
				panic(r)
			}
			res = "panic"
		}
	}()
	var e Eco
	if op.K != KVers {
		if op.E < 0 || op.E >= len(ecos) {
			return "bad-eco"
		}
		e = ecos[op.E]
	}
	switch op.K {
	case KCmp:
		a, ok1 := vw.V(op.E, op.A)
		b, ok2 := vw.V(op.E, op.B)
		if !ok1 || !ok2 {
			return noPool
		}
		return strconv.Itoa(e.Compare(a, b))
	case KCont:
		r, ok1 := vw.R(op.E, op.R)
		a, ok2 := vw.V(op.E, op.A)
		if !ok1 || !ok2 {
			return noPool
		}
		return strconv.FormatBool(e.Contains(r, a))
	case KVStr:
		a, ok := vw.V(op.E, op.A)
		if !ok {
			return noPool
		}
		return "s:" + e.VString(a)
	case KRStr:
		r, ok := vw.R(op.E, op.R)
		if !ok {
			return noPool
		}
		return "s:" + e.RString(r)
	case KName:
		return "s:" + e.Name()
	case KNewV:
		v, err := e.NewVersion(op.S)
		if err != nil {
			return "err:" + err.Error()
		}
		if v == nil {
			return "nil-without-error"
		}
		var sb strings.Builder
		sb.WriteString("ok|")
		sb.WriteString(e.VString(v))
		sb.WriteString("|self=")
		sb.WriteString(strconv.Itoa(e.Compare(v, v)))
		// observe the new value against several pool values, so that a value
		// that was built from the wrong parts is told apart from the right one
		for k := 0; k < 4; k++ {
			a, ok := vw.V(op.E, op.A+k)
			if !ok {
				if k == 0 {
					continue
				}
				break
			}
			sb.WriteString("|ab=")
			sb.WriteString(strconv.Itoa(e.Compare(v, a)))
			sb.WriteString("|ba=")
			sb.WriteString(strconv.Itoa(e.Compare(a, v)))
		}
		for k := 0; k < 2; k++ {
			r, ok := vw.R(op.E, op.R+k)
			if !ok {
				break
			}
			sb.WriteString("|in=")
			sb.WriteString(strconv.FormatBool(e.Contains(r, v)))
		}
		return sb.String()
	case KNewR:
		r, err := e.NewRange(op.S)
		if err != nil {
			return "err:" + err.Error()
		}
		if r == nil {
			return "nil-without-error"
		}
		var sb strings.Builder
		sb.WriteString("ok|")
		sb.WriteString(e.RString(r))
		for k := 0; k < 3; k++ {
			a, ok := vw.V(op.E, op.A+k)
			if !ok {
				break
			}
			sb.WriteString("|has=")
			sb.WriteString(strconv.FormatBool(e.Contains(r, a)))
		}
		if b, ok := vw.V(op.E, op.B); ok {
			sb.WriteString("|has2=")
			sb.WriteString(strconv.FormatBool(e.Contains(r, b)))
		}
		return sb.String()
	case KVers:
		simrt.ResetOpSteps()
		ok, err := vers.Contains(op.S, op.T)
		if err != nil {
			return "err:" + err.Error()
		}
		return strconv.FormatBool(ok)
	case KSort:
		vs := make([]any, 0, len(op.L))
		for _, i := range op.L {
			v, ok := vw.V(op.E, i)
			if !ok {
				return noPool
			}
			vs = append(vs, v)
		}
		out := e.SortCopy(vs)
		var sb strings.Builder
		sb.WriteString("sorted")
		for _, v := range out {
			sb.WriteString("|")
			sb.WriteString(e.VString(v))
		}
		return sb.String()
	}
	return "bad-kind"
}

// opObjs lists the shared-object ids an operation touches (for the scheduler's
// same-object bookkeeping): eco*1000+i for versions, eco*1000+500+r for ranges,
// eco*1000+999 for the shared *Ecosystem, 999999 for the VERS package.
func opObjs(op *Op, buf []int32) []int32 {
	buf = buf[:0]
	base := int32(op.E) * 1000
	switch op.K {
	case KCmp:
		buf = append(buf, base+int32(op.A), base+int32(op.B))
	case KCont:
		buf = append(buf, base+500+int32(op.R), base+int32(op.A))
	case KVStr:
		buf = append(buf, base+int32(op.A))
	case KRStr:
		buf = append(buf, base+500+int32(op.R))
	case KName:
		buf = append(buf, base+999)
	case KNewV:
		buf = append(buf, base+999, base+int32(op.A), base+500+int32(op.R))
	case KNewR:
		buf = append(buf, base+999, base+int32(op.A), base+int32(op.B))
	case KVers:
		buf = append(buf, 999999)
	case KSort:
		for k, i := range op.L {
			if k >= simrt.MaxObjs {
				break
			}
			buf = append(buf, base+int32(i))
		}
	}
	return buf
}

// observePool renders everything observable on a set of pool values.
func observePool(spec *Spec, ecos []Eco, vw view) []PoolObs {
	out := make([]PoolObs, len(spec.Ecos))
	for e := range spec.Ecos {
		out[e] = observeEco(spec, ecos, vw, e)
	}
	return out
}

func observeEco(spec *Spec, ecos []Eco, vw view, e int) (po PoolObs) {
	simrt.ResetOpSteps()
	ep := spec.Ecos[e]
	eco := ecos[e]
	n := len(ep.Versions)
	vals := make([]any, n)
	po.VStr = make([]string, n)
	for i := 0; i < n; i++ {
		v, ok := vw.V(e, i)
		if !ok {
			po.VStr[i] = noPool
			continue
		}
		vals[i] = v
		po.VStr[i] = guardS(func() string { return eco.VString(v) })
	}
	rvals := make([]any, len(ep.Ranges))
	po.RStr = make([]string, len(ep.Ranges))
	for i := range ep.Ranges {
		r, ok := vw.R(e, i)
		if !ok {
			po.RStr[i] = noPool
			continue
		}
		rvals[i] = r
		po.RStr[i] = guardS(func() string { return eco.RString(r) })
	}
	cm := make([]byte, 0, n*n)
	for i := 0; i < n; i++ {
		for j := 0; j < n; j++ {
			if vals[i] == nil || vals[j] == nil {
				cm = append(cm, '!')
				continue
			}
			cm = append(cm, guardB(func() byte {
				switch eco.Compare(vals[i], vals[j]) {
				case -1:
					return '<'
				case 0:
					return '='
				case 1:
					return '>'
				}
				return '?'
			}))
		}
	}
	po.Cmp = string(cm)
	ct := make([]byte, 0, n*len(rvals))
	for r := range rvals {
		for i := 0; i < n; i++ {
			if rvals[r] == nil || vals[i] == nil {
				ct = append(ct, '!')
				continue
			}
			ct = append(ct, guardB(func() byte {
				if eco.Contains(rvals[r], vals[i]) {
					return '1'
				}
				return '0'
			}))
		}
	}
	po.Cont = string(ct)
	return po
}

func guardS(f func() string) (s string) {
	defer func() {
		if r := recover(); r != nil {
			if simrt.IsAbort(r) {
				panic(r)
			}
			s = "panic"
		}
	}()
	return f()
}

func guardB(f func() byte) (b byte) {
	defer func() {
		if r := recover(); r != nil {
			if simrt.IsAbort(r) {
				panic(r)
			}
			b = 'P'
		}
	}()
	return f()
}

// Reference computes the reference table of a spec: every operation evaluated
// sequentially, by one goroutine, on freshly parsed private values. With
// reverse set the operations are evaluated in the opposite order (last task
// first, last operation first, pool observation before everything else); the
// table is laid out identically, so that two processes evaluating the same
// operations after different histories can be compared entry by entry.
func Reference(spec *Spec, reverse bool) (Exp, error) {
	ecos, err := resolveEcos(spec)
	if err != nil {
		return Exp{}, err
	}
	fv := &freshView{spec: spec, ecos: ecos}
	var exp Exp
	exp.Pre = make([]string, len(spec.Prewarm))
	exp.Ops = make([][]string, len(spec.Tasks))
	for t, prog := range spec.Tasks {
		exp.Ops[t] = make([]string, len(prog))
	}
	if !reverse {
		for i := range spec.Prewarm {
			exp.Pre[i] = evalOp(&spec.Prewarm[i], ecos, fv)
		}
		for t, prog := range spec.Tasks {
			for i := range prog {
				exp.Ops[t][i] = evalOp(&prog[i], ecos, fv)
			}
		}
		exp.Pool = observePool(spec, ecos, fv)
		return exp, nil
	}
	exp.Pool = observePool(spec, ecos, fv)
	gcEach := os.Getenv("GOGC") == "1" // set for trees whose behaviour can depend on the collector
	for t := len(spec.Tasks) - 1; t >= 0; t-- {
		prog := spec.Tasks[t]
		for i := len(prog) - 1; i >= 0; i-- {
			exp.Ops[t][i] = evalOp(&prog[i], ecos, fv)
			if gcEach {
				// what the previous operation dropped is collected before the next
				// one allocates (address reuse, cleared weak pointers)
				runtime.GC()
			}
		}
	}
	for i := len(spec.Prewarm) - 1; i >= 0; i-- {
		exp.Pre[i] = evalOp(&spec.Prewarm[i], ecos, fv)
	}
	return exp, nil
}
