package harness

import (
	"slices"

	"github.com/alowayed/go-univers/zz_sim/simrt"

	"github.com/alowayed/go-univers/pkg/univers"
)

// Eco is the type-erased view of one ecosystem. The *Ecosystem value inside is
// the one shared by every task of the process.
type Eco interface {
	Name() string
	NewVersion(s string) (any, error)
	NewRange(s string) (any, error)
	Compare(a, b any) int
	Contains(r, v any) bool
	VString(v any) string
	RString(r any) string
	SortCopy(vs []any) []any
}

type ecoAdapter[V univers.Version[V], VR univers.VersionRange[V]] struct {
	e univers.Ecosystem[V, VR]
}

func adapt[V univers.Version[V], VR univers.VersionRange[V]](e univers.Ecosystem[V, VR]) Eco {
	return &ecoAdapter[V, VR]{e: e}
}

func (a *ecoAdapter[V, VR]) Name() string { return a.e.Name() }

// Every adapter method restarts the per-call step budget of the current task:
// the no-progress budget is meant for a single library call, however many of
// them one harness operation (a large sort, a pool observation) strings together.
func (a *ecoAdapter[V, VR]) NewVersion(s string) (any, error) {
	simrt.ResetOpSteps()
	v, err := a.e.NewVersion(s)
	if err != nil {
		return nil, err
	}
	return v, nil
}
func (a *ecoAdapter[V, VR]) NewRange(s string) (any, error) {
	simrt.ResetOpSteps()
	r, err := a.e.NewVersionRange(s)
	if err != nil {
		return nil, err
	}
	return r, nil
}
func (a *ecoAdapter[V, VR]) Compare(x, y any) int {
	simrt.ResetOpSteps()
	return x.(V).Compare(y.(V))
}
func (a *ecoAdapter[V, VR]) Contains(r, v any) bool {
	simrt.ResetOpSteps()
	return r.(VR).Contains(v.(V))
}
func (a *ecoAdapter[V, VR]) VString(v any) string { return v.(V).String() }
func (a *ecoAdapter[V, VR]) RString(r any) string { return r.(VR).String() }
func (a *ecoAdapter[V, VR]) SortCopy(vs []any) []any {
	tv := make([]V, len(vs))
	for i, v := range vs {
		tv[i] = v.(V)
	}
	slices.SortFunc(tv, func(x, y V) int {
		simrt.ResetOpSteps()
		return x.Compare(y)
	})
	out := make([]any, len(tv))
	for i, v := range tv {
		out[i] = v
	}
	return out
}

var registry = map[string]Eco{}
var registryOrder []string

func register(dir string, e Eco) {
	registry[dir] = e
	registryOrder = append(registryOrder, dir)
}

// EcoByName returns the adapter registered for a package directory name.
func EcoByName(n string) Eco { return registry[n] }

// EcoNames lists registered ecosystems in registration (alphabetical) order.
func EcoNames() []string { return registryOrder }
