package harness

import (
	"fmt"
	"sort"
	"strings"

	"github.com/alowayed/go-univers/zz_sim/simrt"
)

// Corpus is the input material: per package directory, strings harvested from
// the repository's own test tables and documentation. They only have to drive
// every function of every package; the object of study is the schedule.
type Corpus struct {
	Eco  map[string][]string `json:"eco"`
	Vers []string            `json:"vers"`
}

type ecoClass struct {
	versions []string
	ranges   []string
	rejects  []string
}

// Classified is the corpus after classification against the tree under test.
type Classified struct {
	Eco map[string]struct {
		Versions []string `json:"versions"`
		Ranges   []string `json:"ranges"`
		Rejects  []string `json:"rejects"`
	} `json:"eco"`
	Vers map[string][]string `json:"vers"`
}

// Export renders the generator's classified corpus.
func (g *Gen) Export() *Classified {
	c := &Classified{Vers: g.versBy}
	c.Eco = map[string]struct {
		Versions []string `json:"versions"`
		Ranges   []string `json:"ranges"`
		Rejects  []string `json:"rejects"`
	}{}
	for n, ec := range g.class {
		e := c.Eco[n]
		e.Versions, e.Ranges, e.Rejects = ec.versions, ec.ranges, ec.rejects
		c.Eco[n] = e
	}
	return c
}

// GenFromClassified rebuilds a generator from an exported classification.
func GenFromClassified(c *Classified, tier string) *Gen {
	g := &Gen{class: map[string]*ecoClass{}, versBy: map[string][]string{}, Tier: tier}
	g.names = append(g.names, EcoNames()...)
	sort.Strings(g.names)
	for _, n := range g.names {
		e := c.Eco[n]
		g.class[n] = &ecoClass{versions: e.Versions, ranges: e.Ranges, rejects: e.Rejects}
	}
	for s, v := range c.Vers {
		g.versBy[s] = v
		g.schemes = append(g.schemes, s)
	}
	sort.Strings(g.schemes)
	g.initTemplates()
	return g
}

// Gen generates run specs. It runs only in the plain (uninstrumented) build.
type Gen struct {
	names   []string
	class   map[string]*ecoClass
	versBy  map[string][]string // VERS scheme -> vers strings
	schemes []string
	Tier    string

	// Soak, when set, names the ecosystem every run of the batch is forced to use,
	// with wide constructor-heavy workloads: thousands of distinct texts pass
	// through one process, which is what size-bounded caches need to start
	// evicting.
	Soak string
	// SoakVers makes every run of the batch VERS-heavy with many distinct ranges.
	SoakVers bool
	// Sweep turns the batch into systematic single-preemption sweeps (see sweepSpec).
	Sweep bool
	// Lifetimes enables the garbage-collection fault (the tree under test uses
	// finalizers, cleanups, weak pointers or unique handles).
	Lifetimes bool

	templates map[string][]string            // ecosystem -> range templates
	words     map[string][]string            // ecosystem -> alphabetic tokens seen in its versions
	seps      map[string][]string            // ecosystem -> separators its compound ranges use
	sigs      map[string][]string            // ecosystem -> operator shapes of its templates
	bySig     map[string]map[string][]string // ecosystem -> shape -> templates
}

var errPanic = fmt.Errorf("panic")

var compoundSeps = []string{" || ", "||", " | ", ", ", ",", " and ", " or ", " "}

func (g *Gen) initTemplates() {
	g.templates = map[string][]string{}
	g.words = map[string][]string{}
	g.sigs = map[string][]string{}
	g.bySig = map[string]map[string][]string{}
	for n, ec := range g.class {
		tm := templatesOf(ec.ranges)
		if e := EcoByName(n); e != nil {
			tm = liveTemplates(e, tm, ec.versions)
		}
		g.templates[n] = tm
		g.words[n] = wordsOf(ec.versions)
		g.bySig[n] = map[string][]string{}
		for _, t := range tm {
			sg := templateSig(t)
			if _, ok := g.bySig[n][sg]; !ok {
				g.sigs[n] = append(g.sigs[n], sg)
			}
			g.bySig[n][sg] = append(g.bySig[n][sg], t)
		}
		sort.Strings(g.sigs[n])
	}
	g.seps = map[string][]string{}
	for n, ec := range g.class {
		for _, sep := range compoundSeps {
			cnt := 0
			for _, r := range ec.ranges {
				if strings.Contains(strings.TrimSpace(r), sep) {
					cnt++
				}
			}
			if cnt >= 2 {
				g.seps[n] = append(g.seps[n], sep)
			}
		}
	}
}

var schemeEco = map[string]string{
	"alpine": "alpine", "cargo": "cargo", "deb": "debian", "gem": "gem", "maven": "maven",
	"npm": "npm", "nuget": "nuget", "pypi": "pypi", "rpm": "rpm", "generic": "semver", "golang": "golang",
}

func tryV(e Eco, s string) (ok bool) {
	defer func() {
		if recover() != nil {
			ok = false
		}
	}()
	v, err := e.NewVersion(s)
	return err == nil && v != nil
}

func tryR(e Eco, s string) (ok bool) {
	defer func() {
		if recover() != nil {
			ok = false
		}
	}()
	r, err := e.NewRange(s)
	return err == nil && r != nil
}

func NewGen(c *Corpus, tier string) *Gen {
	g := &Gen{class: map[string]*ecoClass{}, versBy: map[string][]string{}, Tier: tier}
	g.names = append(g.names, EcoNames()...)
	sort.Strings(g.names)
	for _, n := range g.names {
		e := EcoByName(n)
		ec := &ecoClass{}
		seen := map[string]bool{}
		for _, s := range c.Eco[n] {
			if seen[s] || len(s) > 96 {
				continue
			}
			seen[s] = true
			v, r := tryV(e, s), tryR(e, s)
			if v {
				ec.versions = append(ec.versions, s)
			}
			if r {
				ec.ranges = append(ec.ranges, s)
			}
			if !v && !r {
				ec.rejects = append(ec.rejects, s)
			}
		}
		g.class[n] = ec
	}
	seen := map[string]bool{}
	for _, s := range c.Vers {
		if seen[s] || !strings.HasPrefix(s, "vers:") || len(s) > 160 {
			continue
		}
		seen[s] = true
		rest := s[5:]
		sch := rest
		if i := strings.IndexByte(rest, '/'); i >= 0 {
			sch = rest[:i]
		}
		if _, ok := schemeEco[sch]; !ok {
			sch = "other"
		}
		g.versBy[sch] = append(g.versBy[sch], s)
	}
	for s := range g.versBy {
		g.schemes = append(g.schemes, s)
	}
	sort.Strings(g.schemes)
	g.initTemplates()
	return g
}

// Summary describes the classified corpus (for the evidence file).
func (g *Gen) Summary() map[string][3]int {
	m := map[string][3]int{}
	for n, c := range g.class {
		m[n] = [3]int{len(c.versions), len(c.ranges), len(c.rejects)}
	}
	for s, v := range g.versBy {
		m["vers:"+s] = [3]int{0, len(v), 0}
	}
	return m
}

type prng struct{ s uint64 }

func (p *prng) next() uint64 {
	p.s += 0x9e3779b97f4a7c15
	z := p.s
	z = (z ^ (z >> 30)) * 0xbf58476d1ce4e5b9
	z = (z ^ (z >> 27)) * 0x94d049bb133111eb
	return z ^ (z >> 31)
}
func (p *prng) n(n int) int {
	if n <= 0 {
		return 0
	}
	return int(p.next() % uint64(n))
}
func (p *prng) rng(lo, hi int) int       { return lo + p.n(hi-lo+1) }
func (p *prng) chance(num, den int) bool { return p.n(den) < num }
func pickS(p *prng, xs []string) string {
	if len(xs) == 0 {
		return ""
	}
	return xs[p.n(len(xs))]
}

// RunSeed derives the seed of run i from the check's seed and tier.
func RunSeed(seed uint64, tier string, i int) uint64 {
	h := seed*0x9e3779b97f4a7c15 + 0x632be59bd9b4e019
	for k := 0; k < len(tier); k++ {
		h = (h ^ uint64(tier[k])) * 0x100000001b3
	}
	p := prng{s: h ^ (uint64(i)+1)*0xd1342543de82ef95}
	p.next()
	return p.next()
}

// mutate makes a cheap variant of a string so that equal-comparing but
// different texts, near-collisions and error paths are present.
func mutate(p *prng, s string) string {
	switch p.n(7) {
	case 0:
		return strings.ToUpper(s)
	case 1:
		return "v" + s
	case 2:
		return " " + s + " "
	case 3: // bump a digit
		b := []byte(s)
		for k := 0; k < len(b); k++ {
			i := (k + p.n(len(b))) % len(b)
			if b[i] >= '0' && b[i] <= '8' {
				b[i]++
				break
			}
		}
		return string(b)
	case 4:
		return s + ".0"
	case 5:
		return strings.ToLower(s)
	default:
		return strings.TrimPrefix(s, "v")
	}
}

// Spec generates the spec of run `index` of the check identified by (seed, tier).
func (g *Gen) Spec(seed uint64, index int) Spec {
	if g.Sweep {
		return g.sweepSpec(seed, index)
	}
	sp := g.spec(seed, index)
	if g.Soak != "" || g.SoakVers {
		// more than 2^16 distinct texts per spelling scheme
		sp.Flood = 70000
	}
	return sp
}

// sweepGroup is the number of consecutive run indices that share one base spec
// in a sweep batch.
const sweepGroup = 400

// sweepSpec: a systematic single-preemption sweep. All runs of a group share
// one small base spec (two tasks, one or two operations each, on the related
// spellings of a cold family); run k of the group preempts one task at its
// k-th yield, lets the other task run to completion, and resumes. Over a group
// every single-preemption interleaving of those operations is executed, which
// random schedules only approach.
func (g *Gen) sweepSpec(seed uint64, index int) Spec {
	base := index - index%sweepGroup
	sp := g.spec(seed, base)
	sp.Index = index
	sp.Seed = RunSeed(seed, g.Tier, index)
	if len(sp.Tasks) > 2 {
		sp.Tasks = sp.Tasks[:2]
	}
	for t := range sp.Tasks {
		if len(sp.Tasks[t]) > 2 {
			sp.Tasks[t] = sp.Tasks[t][:2]
		}
	}
	sp.Prewarm = nil
	k := (index % sweepGroup) / 2
	victim := int32(1 + index%2)
	other := int32(3) - victim
	if len(sp.Tasks) < 2 {
		other = victim
	}
	op := int32(0)
	lstep := uint32(k)
	if k >= sweepGroup/4 && len(sp.Tasks[victim-1]) > 1 {
		// second half of the group: preempt inside the second operation
		op, lstep = 1, uint32(k-sweepGroup/4)
	}
	sp.Sched = simrt.Sched{Policy: simrt.PolExplicit, Seed: sp.Seed, Explicit: []simrt.Switch{
		{Task: 0, To: victim, Kind: 3},
		{Task: victim, Op: op, Lstep: lstep, To: other, Kind: 0},
		{Task: other, To: victim, Kind: 1},
	}}
	return sp
}

func (g *Gen) spec(seed uint64, index int) Spec {
	rs := RunSeed(seed, g.Tier, index)
	p := &prng{s: rs}
	thorough := g.Tier == "thorough"
	sp := Spec{Seed: rs, Tier: g.Tier, Index: index}

	// ecosystems: the index forces one so that every package gets its share
	nEco := 1 + p.n(3)
	used := map[string]bool{}
	fams := map[string]*family{}
	coldFam := map[string]bool{}
	sharedBase := ""
	forced := g.names[index%len(g.names)]
	if g.Soak != "" && g.class[g.Soak] != nil {
		forced = g.Soak
	}
	for k := 0; k < nEco; k++ {
		n := forced
		if k > 0 {
			n = g.names[p.n(len(g.names))]
		}
		if used[n] {
			continue
		}
		used[n] = true
		ec := g.class[n]
		if len(ec.versions) == 0 {
			continue
		}
		ep := EcoPool{Name: n}
		e := EcoByName(n)
		nv := p.rng(2, 12)
		if p.chance(1, 2) {
			var f family
			if sharedBase != "" && p.chance(1, 2) {
				f = g.familyOf(p, n, sharedBase)
			} else {
				f = g.family(p, n)
			}
			if sharedBase == "" && len(f.cands) > 0 {
				sharedBase = f.cands[0]
			}
			fams[n] = &f
			if p.chance(1, 2) && len(f.vs) >= 4 {
				// cold constructors: only every third spelling becomes a pool
				// member (parsed by the main goroutine before the tasks start);
				// the others reach the library for the first time from the tasks
				for i, v := range f.vs {
					if i%3 == 1 {
						ep.Versions = append(ep.Versions, v)
					}
				}
				coldFam[n] = true
			} else {
				ep.Versions = append(ep.Versions, f.vs...)
			}
			if coldFam[n] && len(f.rs) >= 4 {
				// cold ranges likewise: every other one is left to the tasks
				for i, r := range f.rs {
					if i%2 == 0 {
						ep.Ranges = append(ep.Ranges, r)
					}
				}
			} else {
				ep.Ranges = append(ep.Ranges, f.rs...)
			}
			nv = p.rng(0, 3)
			if len(ep.Versions) < 2 {
				nv = 2
			}
		}
		for i := 0; i < nv; i++ {
			s := pickS(p, ec.versions)
			if p.chance(1, 4) {
				if m := mutate(p, s); tryV(e, m) {
					s = m
				}
			}
			ep.Versions = append(ep.Versions, s)
		}
		if len(ec.ranges) > 0 {
			nr := p.rng(1, 6)
			if fams[n] != nil && len(ep.Ranges) > 0 {
				nr = p.rng(0, 2)
			}
			for i := 0; i < nr; i++ {
				ep.Ranges = append(ep.Ranges, pickS(p, ec.ranges))
			}
		}
		sp.Ecos = append(sp.Ecos, ep)
	}

	// VERS: the index forces a scheme too
	var versPairs [][2]string
	if len(g.schemes) > 0 {
		nvp := p.rng(2, 8)
		sch := g.schemes[(index/len(g.names))%len(g.schemes)]
		for i := 0; i < nvp; i++ {
			if i > 0 && p.chance(1, 3) {
				sch = g.schemes[p.n(len(g.schemes))]
			}
			vs := pickS(p, g.versBy[sch])
			var ver string
			if en, ok := schemeEco[sch]; ok && g.class[en] != nil && len(g.class[en].versions) > 0 && !p.chance(1, 8) {
				ver = pickS(p, g.class[en].versions)
			} else {
				ver = pickS(p, g.class[g.names[p.n(len(g.names))]].versions)
			}
			versPairs = append(versPairs, [2]string{vs, ver})
		}
	}

	for _, ep := range sp.Ecos {
		if f := fams[ep.Name]; f != nil {
			for k := p.rng(1, 3); k > 0; k-- {
				versPairs = append(versPairs, g.versSynth(p, ep.Name, f)...)
			}
		}
	}
	if g.SoakVers {
		// VERS soak: well over a hundred distinct ranges per run, fifty runs per
		// process, while the corpus ranges keep recurring
		for len(versPairs) < 400 {
			sch := g.schemes[p.n(len(g.schemes))]
			en, ok := schemeEco[sch]
			if !ok || g.class[en] == nil || len(g.class[en].versions) == 0 {
				continue
			}
			f := g.family(p, en)
			for k := 0; k < 6; k++ {
				versPairs = append(versPairs, g.versSynth(p, en, &f)...)
			}
			if len(f.vs) == 0 {
				versPairs = append(versPairs, [2]string{pickS(p, g.versBy[sch]), pickS(p, g.class[en].versions)})
			}
		}
	}

	// hot strings for constructors: shared between tasks on purpose
	type hot struct{ v, r []string }
	hots := make([]hot, len(sp.Ecos))
	type aliasOp struct {
		e int
		s string
	}
	var aliasOpen []aliasOp
	for e, ep := range sp.Ecos {
		ec := g.class[ep.Name]
		for i := 0; i < 3; i++ {
			s := pickS(p, ec.versions)
			if p.chance(1, 3) {
				s = mutate(p, s)
			}
			hots[e].v = append(hots[e].v, s)
			if len(ec.ranges) > 0 {
				hots[e].r = append(hots[e].r, pickS(p, ec.ranges))
			}
		}
		if f := fams[ep.Name]; f != nil {
			hots[e].v = append(hots[e].v[:1], f.cands[:min(len(f.cands), 5)]...)
			if len(f.cands) >= 36 {
				// a large family (calendar versions): constructors get all of it
				hots[e].v = append(hots[e].v, f.cands...)
			}
			if coldFam[ep.Name] {
				hots[e].v = append(hots[e].v[:0], f.cands[:min(len(f.cands), 9)]...)
				// an alias group: spellings a parser typically cleans to one text
				// (prefix v / =, padding); none of them is a pool member
				inPool := map[string]bool{}
				for _, v := range ep.Versions {
					inPool[strings.TrimSpace(v)] = true
				}
				eco := EcoByName(ep.Name)
				for tries := 0; tries < 6 && len(aliasOpen) == 0; tries++ {
					c := strings.TrimSpace(pickS(p, f.vs))
					if c == "" || inPool[c] {
						continue
					}
					core := strings.TrimLeft(c, "vV=")
					var grp []string
					for _, a := range []string{core, "v" + core, "=" + core, " " + core, "V" + core} {
						if !inPool[strings.TrimSpace(a)] && tryV(eco, a) {
							grp = append(grp, a)
						}
					}
					if len(grp) >= 2 {
						if len(grp) > 3 {
							grp = grp[:3]
						}
						for _, a := range grp {
							aliasOpen = append(aliasOpen, aliasOp{e, a})
							hots[e].v = append(hots[e].v, a)
						}
					}
				}
			}
			if len(f.rs) > 0 {
				hots[e].r = append(hots[e].r[:1], f.rs...)
			}
			hots[e].r = append(hots[e].r, f.rx...)
			tm := g.templates[ep.Name]
			for k := 0; k < 4 && len(tm) > 0; k++ {
				hots[e].r = append(hots[e].r, fill(p, pickS(p, tm), f.cands))
			}
		}
		if len(ec.rejects) > 0 {
			hots[e].v = append(hots[e].v, pickS(p, ec.rejects))
			hots[e].r = append(hots[e].r, pickS(p, ec.rejects))
		}
	}

	// case variants of ranges (operators, flags and qualifiers written in another
	// case are a classic special path)
	titleCase := func(x string) string {
		b := []byte(x)
		up := true
		for i, c := range b {
			if c >= 'a' && c <= 'z' {
				if up {
					b[i] = c - 32
				}
				up = false
			} else if !(c >= 'A' && c <= 'Z') {
				up = true
			}
		}
		return string(b)
	}
	for e, ep := range sp.Ecos {
		ec := g.class[ep.Name]
		if len(ec.ranges) == 0 || !p.chance(1, 3) {
			continue
		}
		eco := EcoByName(ep.Name)
		for k := 0; k < 3; k++ {
			r := pickS(p, ec.ranges)
			// the same range with one of its words replaced by another word of this
			// ecosystem's vocabulary (@stable -> @beta, -alpha -> -rc ...)
			if na := len(alphaRun.FindAllString(r, -1)); na > 0 && len(g.words[ep.Name]) > 0 && p.chance(1, 2) {
				r = replaceNth(alphaRun, r, p.n(na), pickS(p, g.words[ep.Name]))
				if tryR(eco, r) {
					hots[e].r = append(hots[e].r, r)
				}
			}
			for _, v := range []string{titleCase(r), strings.ToUpper(r)} {
				if v != r && tryR(eco, v) {
					hots[e].r = append(hots[e].r, v)
					if len(sp.Ecos[e].Ranges) < 14 {
						sp.Ecos[e].Ranges = append(sp.Ecos[e].Ranges, v)
					}
				}
			}
		}
	}

	// wide runs: many distinct constructor texts, each used again and again by
	// every task (what a small hashed or direct-mapped cache needs to collide)
	wide := p.chance(1, 6) || (g.Soak != "" && p.chance(3, 4))
	if wide {
		for e, ep := range sp.Ecos {
			ec := g.class[ep.Name]
			nh := 40
			if g.Soak != "" {
				nh = 110
			}
			for len(hots[e].v) < nh {
				s := pickS(p, ec.versions)
				if p.chance(1, 4) {
					s = mutate(p, s)
				}
				hots[e].v = append(hots[e].v, s)
			}
			for len(hots[e].r) < 24 && len(ec.ranges) > 0 {
				hots[e].r = append(hots[e].r, pickS(p, ec.ranges))
			}
		}
	}

	// collide runs: a handful of constructor texts that share a hash bucket,
	// parsed over and over by every task under a dense schedule
	collideVers := false
	collide := !wide && len(sp.Ecos) > 0 && p.chance(1, 4)
	if collide {
		e := p.n(len(sp.Ecos))
		if cs := g.colliders(p, sp.Ecos[e].Name, false, p.rng(2, 4)); len(cs) >= 2 {
			hots[e].v = cs
			// the colliding texts are also pool members, so that a value built
			// from its bucket-mate's parts is observably different
			sp.Ecos[e].Versions = append(cs, sp.Ecos[e].Versions...)
			if len(sp.Ecos[e].Versions) > 14 {
				sp.Ecos[e].Versions = sp.Ecos[e].Versions[:14]
			}
		}
		if cs := g.colliders(p, sp.Ecos[e].Name, true, p.rng(2, 4)); len(cs) >= 2 {
			hots[e].r = cs
		}
		wide = true // same constructor-heavy operation mix
		// VERS too: a few range texts that share a hash bucket, used over and over
		if p.chance(1, 3) && len(g.schemes) > 0 {
			if vc := g.versColliders(p, p.rng(2, 3)); len(vc) >= 2 {
				versPairs = versPairs[:0]
				for _, vs := range vc {
					sch := vs[5:]
					if i := strings.IndexByte(sch, '/'); i >= 0 {
						sch = sch[:i]
					}
					en := schemeEco[sch]
					for k := 0; k < 3; k++ {
						if g.class[en] != nil && len(g.class[en].versions) > 0 {
							versPairs = append(versPairs, [2]string{vs, pickS(p, g.class[en].versions)})
						}
					}
				}
				collideVers = len(versPairs) > 0
			}
		}
	}

	// op mix (swarm): weights per kind, some kinds switched off per run
	kinds := []string{KCmp, KCont, KVStr, KRStr, KName, KNewV, KNewR, KVers, KSort}
	base := []int{6, 6, 1, 1, 1, 4, 3, 3, 2}
	if wide {
		base = []int{1, 1, 0, 0, 0, 12, 6, 2, 0}
	}
	if collideVers {
		base = []int{1, 1, 0, 0, 0, 4, 2, 14, 0}
	}
	if g.SoakVers {
		base = []int{1, 1, 0, 0, 0, 1, 1, 30, 0}
		wide = true
	}
	w := make([]int, len(kinds))
	tot := 0
	for i := range kinds {
		lo := 0
		if wide {
			lo = 1
		}
		w[i] = base[i] * p.rng(lo, 3)
		tot += w[i]
	}
	if tot == 0 {
		w[0], w[1], w[5] = 1, 1, 1
		tot = 3
	}
	hotN := p.rng(1, 3)
	hotP := p.rng(3, 9) // out of 10

	// focus runs: every task hammers ONE shared range with a handful of related
	// versions (and compares those with each other), in its own order. A memo
	// of the last answer, a per-value fast path or a lazily compiled range only
	// misbehaves when related arguments meet on the same value back to back.
	focusE, focusR := -1, 0
	var focusV []int
	if !wide && !soakingEarly(g) && p.chance(1, 5) {
		for e, ep := range sp.Ecos {
			if fams[ep.Name] != nil && len(ep.Ranges) > 0 && len(ep.Versions) >= 2 {
				focusE = e
				break
			}
		}
		if focusE >= 0 {
			ep := sp.Ecos[focusE]
			// prefer a range with several constraints
			best := 0
			for tries := 0; tries < 4; tries++ {
				r := p.n(len(ep.Ranges))
				if len(verTok.FindAllString(ep.Ranges[r], -1)) > len(verTok.FindAllString(ep.Ranges[best], -1)) || tries == 0 {
					best = r
				}
			}
			focusR = best
			nv := p.rng(2, min(5, len(ep.Versions)))
			for _, i := range rand5(p, len(ep.Versions))[:nv] {
				focusV = append(focusV, i)
			}
			for i := range w {
				w[i] = 0
			}
			w[0], w[1], w[5] = 3, 14, 1 // cmp, cont, newv
			tot = 18
		}
	}

	pickV := func(e int) int {
		if e == focusE && len(focusV) > 0 {
			return focusV[p.n(len(focusV))]
		}
		n := len(sp.Ecos[e].Versions)
		if n == 0 {
			return 0
		}
		if p.n(10) < hotP {
			return p.n(min(hotN, n))
		}
		return p.n(n)
	}
	pickR := func(e int) int {
		if e == focusE {
			return focusR
		}
		n := len(sp.Ecos[e].Ranges)
		if n == 0 {
			return 0
		}
		if p.n(10) < hotP {
			return p.n(min(hotN, n))
		}
		return p.n(n)
	}
	versNext := 0
	var genOp1 func() Op
	genOp := func() Op {
		op := genOp1()
		if (op.K == KCmp || op.K == KCont) && p.chance(1, 120) {
			op.N = []int{16, 64, 260, 300}[p.n(4)]
		}
		return op
	}
	genOp1 = func() Op {
		for tries := 0; tries < 20; tries++ {
			x := p.n(tot)
			ki := 0
			for ; ki < len(kinds); ki++ {
				if x < w[ki] {
					break
				}
				x -= w[ki]
			}
			k := kinds[ki]
			if k == KVers {
				if len(versPairs) == 0 {
					continue
				}
				vp := versPairs[p.n(len(versPairs))]
				if g.SoakVers {
					// walk through the pairs so that as many distinct ranges as
					// possible pass through the process
					vp = versPairs[versNext%len(versPairs)]
					versNext += 2
				}
				return Op{K: KVers, S: vp[0], T: vp[1]}
			}
			if len(sp.Ecos) == 0 {
				continue
			}
			e := p.n(len(sp.Ecos))
			if focusE >= 0 {
				e = focusE
			}
			ep := sp.Ecos[e]
			ec := g.class[ep.Name]
			switch k {
			case KCmp:
				return Op{K: k, E: e, A: pickV(e), B: pickV(e)}
			case KCont:
				if len(ep.Ranges) == 0 {
					continue
				}
				return Op{K: k, E: e, R: pickR(e), A: pickV(e)}
			case KVStr:
				return Op{K: k, E: e, A: pickV(e)}
			case KRStr:
				if len(ep.Ranges) == 0 {
					continue
				}
				return Op{K: k, E: e, R: pickR(e)}
			case KName:
				return Op{K: k, E: e}
			case KNewV:
				var s string
				switch {
				case p.chance(6, 10) || wide:
					s = pickS(p, hots[e].v)
				case p.chance(1, 2):
					s = ep.Versions[p.n(len(ep.Versions))]
				case p.chance(1, 4) && len(ec.rejects) > 0:
					s = pickS(p, ec.rejects)
				default:
					s = mutate(p, pickS(p, ec.versions))
				}
				return Op{K: k, E: e, S: s, A: pickV(e), R: pickR(e)}
			case KNewR:
				if len(ec.ranges) == 0 {
					continue
				}
				var s string
				switch {
				case (p.chance(6, 10) || wide) && len(hots[e].r) > 0:
					s = pickS(p, hots[e].r)
				case p.chance(1, 2) && len(ep.Ranges) > 0:
					s = ep.Ranges[p.n(len(ep.Ranges))]
				case p.chance(1, 4) && len(ec.rejects) > 0:
					s = pickS(p, ec.rejects)
				default:
					s = pickS(p, ec.ranges)
				}
				return Op{K: k, E: e, S: s, A: pickV(e), B: pickV(e)}
			case KSort:
				n := len(ep.Versions)
				m := p.rng(2, max(2, min(n, 10)))
				if p.chance(1, 40) {
					// a large sort over the (repeated) pool: long runs of
					// comparisons against one pivot, as a real sort produces
					m = p.rng(300, 700)
				}
				l := make([]int, m)
				for i := range l {
					l[i] = p.n(n)
				}
				return Op{K: k, E: e, L: l}
			}
		}
		if len(sp.Ecos) > 0 {
			return Op{K: KName, E: 0}
		}
		return Op{K: KVers, S: "vers:npm/*", T: "1.0.0"}
	}

	maxTasks := 6
	if thorough {
		maxTasks = 8
	}
	nt := p.rng(2, maxTasks)
	maxOps := []int{4, 12, 40}[p.n(3)]
	if wide {
		maxOps = 40
	}
	soaking := g.Soak != "" || g.SoakVers
	if soaking {
		nt = p.rng(5, maxTasks)
	}
	if collide {
		nt = p.rng(4, maxTasks)
	}
	// alias opening (cold families): every task starts by constructing the
	// spellings of one alias group, in its own order, so that the first parse
	// of texts the library may treat as one key overlaps between tasks
	var opening []Op
	if len(aliasOpen) > 0 {
		for _, ao := range aliasOpen {
			opening = append(opening, Op{K: KNewV, E: ao.e, S: ao.s, A: pickV(ao.e), R: pickR(ao.e)})
		}
	}
	total := 0
	for t := 0; t < nt; t++ {
		n := p.rng(1, maxOps)
		if soaking || collide {
			n = maxOps
		}
		prog := make([]Op, 0, n+len(opening))
		if len(opening) > 0 {
			o := append([]Op(nil), opening...)
			for i := len(o) - 1; i > 0; i-- {
				j := p.n(i + 1)
				o[i], o[j] = o[j], o[i]
			}
			prog = append(prog, o...)
		}
		for i := 0; i < n; i++ {
			prog = append(prog, genOp())
		}
		// mirror: some tasks replay another task's program so that the very same
		// operation runs on the very same objects in two tasks
		if t > 0 && p.chance(1, 4) {
			src := sp.Tasks[p.n(t)]
			prog = append([]Op(nil), src...)
			if p.chance(1, 2) { // reversed order: history shift
				for i, j := 0, len(prog)-1; i < j; i, j = i+1, j-1 {
					prog[i], prog[j] = prog[j], prog[i]
				}
			}
		}
		total += len(prog)
		sp.Tasks = append(sp.Tasks, prog)
	}
	if p.chance(1, 4) {
		n := p.rng(1, 8)
		for i := 0; i < n; i++ {
			sp.Prewarm = append(sp.Prewarm, genOp())
		}
	}

	// schedule
	sc := simrt.Sched{Seed: p.next(), EstSteps: uint64(total)*250 + 100, Affine: p.chance(1, 2)}
	switch x := p.n(20); {
	case x < 6:
		sc.Policy = simrt.PolRandom
		sc.Num = 1
		sc.Den = []uint32{2000, 200, 20, 20, 4, 4, 4, 2, 2, 1}[p.n(10)]
	case x < 11:
		sc.Policy = simrt.PolNap
		sc.Num = 1
		sc.Den = []uint32{400, 100, 40, 20, 10, 5}[p.n(6)]
		if p.chance(1, 2) {
			// (no effect on a tree without atomic / sync operations)
			sc.Hot = true
			sc.Den = []uint32{2000, 400, 100}[p.n(3)]
		}
	case x < 15:
		sc.Policy = simrt.PolPCT
		sc.D = p.rng(1, 3)
	case x < 17:
		sc.Policy = simrt.PolRTC
	default:
		sc.Policy = simrt.PolOpB
		sc.Num = 1
		sc.Den = []uint32{1, 2, 4}[p.n(3)]
	}
	if collide {
		sc.Num = 1
		if p.chance(2, 3) {
			sc.Policy = simrt.PolNap
			sc.Den = []uint32{40, 20, 10}[p.n(3)]
			sc.Hot = p.chance(1, 2)
		} else {
			sc.Policy = simrt.PolRandom
			sc.Den = []uint32{4, 8, 20}[p.n(3)]
		}
	}
	sp.Sched = sc
	sp.Faults = simrt.Faults{
		Seed:      p.next(),
		MapPerm:   p.chance(1, 2),
		ClockJump: p.chance(1, 2),
		ClockBase: 1_700_000_000_000_000_000 + int64(p.n(1<<30))*1_000_000_000 - (1<<29)*1_000_000_000,
		PoolDrop:  uint32([]int{0, 100, 500}[p.n(3)]),
		PoolSteal: p.chance(1, 2),
	}
	if g.Lifetimes {
		sp.Faults.GCPoints = p.n(4)
	}
	return sp
}

func soakingEarly(g *Gen) bool { return g.Soak != "" || g.SoakVers || g.Sweep }

// rand5 returns a seeded permutation of 0..n-1.
func rand5(p *prng, n int) []int {
	out := make([]int, n)
	for i := range out {
		out[i] = i
	}
	for i := n - 1; i > 0; i-- {
		j := p.n(i + 1)
		out[i], out[j] = out[j], out[i]
	}
	return out
}
