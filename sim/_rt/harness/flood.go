package harness

import (
	"fmt"
	"strings"
	"time"

	"github.com/alowayed/go-univers/pkg/spec/vers"
)

// Flood is the "long-lived process" history: n distinct, never repeated texts
// per accepted spelling scheme are driven through every ecosystem the spec
// uses (constructors, a comparison and a range test each) and through
// vers.Contains for the schemes its VERS operations name. It is what the
// reverse-order reference process of a soak batch does before it evaluates
// anything; the forward process does not, so an answer that depends on how
// much the process has already seen (a table that changes behaviour once it
// holds 2^16 entries) differs between the two.
func Flood(spec *Spec, n int) (calls int) {
	// best effort: a tree in which every call is slow (a batching design that
	// makes a lone caller wait for a tick) gets a shorter flood, not a timeout
	floodDeadline = time.Now().Add(10 * time.Second)
	for _, ep := range spec.Ecos {
		e := EcoByName(ep.Name)
		if e == nil {
			continue
		}
		calls += floodEco(e, &ep, n)
	}
	seen := map[string]bool{}
	for _, prog := range spec.Tasks {
		for i := range prog {
			op := &prog[i]
			if op.K != KVers || len(seen) >= 3 {
				continue
			}
			rest, ok := strings.CutPrefix(op.S, "vers:")
			if !ok {
				continue
			}
			sch, _, ok := strings.Cut(rest, "/")
			if !ok || seen[sch] {
				continue
			}
			if c := floodVers(sch, op.T, n); c > 0 {
				seen[sch] = true
				calls += c
			}
		}
	}
	return calls
}

var floodDeadline time.Time

var floodSeps = []string{"-", ".", "+", "~", "_", "", "-r", ".post", ":"}

// floodTok returns the i-th token of a kind: 0 alphanumeric starting with a
// letter, 1 purely numeric. Tokens of one kind are pairwise distinct.
func floodTok(kind, i int) string {
	if kind == 0 {
		return fmt.Sprintf("g%07x", (uint32(i)*2654435761)&0xfffffff)
	}
	return fmt.Sprintf("%d", 100000+i)
}

type floodScheme struct {
	base, sep string
	kind      int
}

func (s floodScheme) text(i int) string { return s.base + s.sep + floodTok(s.kind, i) }

func floodEco(e Eco, ep *EcoPool, n int) (calls int) {
	var bases []string
	var baseV []any
	for _, s := range ep.Versions {
		if len(bases) >= 2 {
			break
		}
		if v, err := guardVersion(e, s); err == nil && v != nil && len(s) < 60 {
			bases = append(bases, strings.TrimSpace(s))
			baseV = append(baseV, v)
		}
	}
	if len(bases) == 0 {
		return 0
	}
	var baseR any
	for _, s := range ep.Ranges {
		if r, err := guardRange(e, s); err == nil && r != nil {
			baseR = r
			break
		}
	}
	var schemes []floodScheme
	for _, b := range bases {
		for kind := 0; kind < 2; kind++ {
			for _, sep := range floodSeps {
				if len(schemes) >= 3 {
					break
				}
				sc := floodScheme{b, sep, kind}
				if v, err := guardVersion(e, sc.text(0)); err == nil && v != nil {
					if v2, err := guardVersion(e, sc.text(1)); err == nil && v2 != nil {
						schemes = append(schemes, sc)
						break // one separator per (base, kind)
					}
				}
			}
		}
	}
	rop := ""
	ropOK := false
	if len(schemes) > 0 {
		for _, op := range []string{">=", "", "=", "==", "^", "~", "~>", "<"} {
			if r, err := guardRange(e, op+schemes[0].text(0)); err == nil && r != nil {
				rop, ropOK = op, true
				break
			}
		}
	}
	for si, sc := range schemes {
		var prev any = baseV[0]
		for i := 0; i < n; i++ {
			if i&255 == 0 && time.Now().After(floodDeadline) {
				break
			}
			s := sc.text(i)
			v, err := guardVersion(e, s)
			calls++
			if err != nil || v == nil {
				continue
			}
			guardB(func() byte { e.Compare(v, prev); return 0 })
			if baseR != nil {
				guardContains(e, baseR, v)
			}
			if ropOK && si == 0 {
				if r, err := guardRange(e, rop+s); err == nil && r != nil {
					guardContains(e, r, baseV[0])
				}
				calls++
			}
			prev = v
		}
	}
	return calls
}

func floodVers(scheme, version string, n int) (calls int) {
	version = strings.TrimSpace(version)
	if version == "" || len(version) > 60 {
		return 0
	}
	try := func(r string) bool {
		ok := false
		func() {
			defer func() { recover() }()
			_, err := vers.Contains(r, version)
			ok = err == nil
		}()
		return ok
	}
	var schemes []floodScheme
	for kind := 0; kind < 2 && len(schemes) < 2; kind++ {
		for _, sep := range floodSeps {
			sc := floodScheme{"vers:" + scheme + "/>=" + version, sep, kind}
			if try(sc.text(0)) && try(sc.text(1)) {
				schemes = append(schemes, sc)
				break
			}
		}
	}
	for _, sc := range schemes {
		for i := 0; i < n; i++ {
			if i&255 == 0 && time.Now().After(floodDeadline) {
				break
			}
			try(sc.text(i))
			calls++
		}
	}
	return calls
}

// heldView is a pool parsed once and then kept: what a long-lived caller holds
// on to while the process goes on parsing other texts.
type heldView struct {
	vs, rs [][]any
}

func (h *heldView) V(e, i int) (any, bool) {
	if e >= len(h.vs) || i >= len(h.vs[e]) {
		return nil, false
	}
	return h.vs[e][i], h.vs[e][i] != nil
}

func (h *heldView) R(e, i int) (any, bool) {
	if e >= len(h.rs) || i >= len(h.rs[e]) {
		return nil, false
	}
	return h.rs[e][i], h.rs[e][i] != nil
}

// HoldPool parses the pool of a spec and keeps the values.
func HoldPool(spec *Spec) (*heldView, error) {
	ecos, err := resolveEcos(spec)
	if err != nil {
		return nil, err
	}
	h := &heldView{vs: make([][]any, len(ecos)), rs: make([][]any, len(ecos))}
	for e, ep := range spec.Ecos {
		h.vs[e] = make([]any, len(ep.Versions))
		h.rs[e] = make([]any, len(ep.Ranges))
		for i, s := range ep.Versions {
			if v, err := guardVersion(ecos[e], s); err == nil && v != nil {
				h.vs[e][i] = v
			}
		}
		for i, s := range ep.Ranges {
			if r, err := guardRange(ecos[e], s); err == nil && r != nil {
				h.rs[e][i] = r
			}
		}
	}
	return h, nil
}

// ObserveHeld renders everything observable on the held values now.
func ObserveHeld(spec *Spec, h *heldView) ([]PoolObs, error) {
	ecos, err := resolveEcos(spec)
	if err != nil {
		return nil, err
	}
	return observePool(spec, ecos, h), nil
}

// ObserveHeldAny is ObserveHeld for a value that travelled as an interface.
func ObserveHeldAny(spec *Spec, h interface{}) ([]PoolObs, error) {
	hv, ok := h.(*heldView)
	if !ok {
		return nil, fmt.Errorf("not a held pool")
	}
	return ObserveHeld(spec, hv)
}
