// Command sim is built inside the scratch copy of the repository, twice:
// plain (modes gen, ref) and instrumented with -race (mode run); mode par is
// the plain tree with -race and real goroutines.
package main

import (
	"encoding/json"
	"flag"
	"fmt"
	"os"
	"runtime"

	"github.com/alowayed/go-univers/zz_sim/harness"
	"github.com/alowayed/go-univers/zz_sim/simrt"
)

func die(code int, f string, a ...any) {
	fmt.Fprintf(os.Stderr, "sim: "+f+"\n", a...)
	os.Exit(code)
}

func readJSON(path string, v any) {
	b, err := os.ReadFile(path)
	if err != nil {
		die(2, "%v", err)
	}
	if err := json.Unmarshal(b, v); err != nil {
		die(2, "%s: %v", path, err)
	}
}

func writeJSON(path string, v any) {
	b, err := json.Marshal(v)
	if err != nil {
		die(2, "%v", err)
	}
	if err := os.WriteFile(path, b, 0o644); err != nil {
		die(2, "%v", err)
	}
}

func main() {
	if len(os.Args) < 2 {
		die(2, "usage: sim gen|ref|run|par ...")
	}
	mode := os.Args[1]
	fs := flag.NewFlagSet(mode, flag.ExitOnError)
	corpus := fs.String("corpus", "", "corpus json")
	seed := fs.Uint64("seed", 1, "check seed")
	tier := fs.String("tier", "quick", "tier")
	from := fs.Int("from", 0, "first run index")
	to := fs.Int("to", 0, "one past last run index")
	batch := fs.Int("batch", 0, "batch number")
	in := fs.String("in", "", "input file")
	out := fs.String("out", "", "output file")
	keep := fs.Bool("keep", false, "keep switch lists and results in the output")
	racelog := fs.String("racelog", "", "GORACE log_path prefix")
	sites := fs.Int("sites", 0, "number of instrumented sites")
	reps := fs.Int("reps", 1, "repetitions (par)")
	summary := fs.String("summary", "", "write corpus classification summary here (gen)")
	lifetimes := fs.Bool("lifetimes", false, "the tree uses finalizers/cleanups/weak/unique (run) or: enable the GC fault (gen)")
	sweep := fs.Bool("sweep", false, "systematic single-preemption sweep batch (gen)")
	soak := fs.Int("soak", -1, "soak batch: force ecosystem number N (mod count) in every run (gen)")
	reverse := fs.Bool("reverse", false, "evaluate cases and operations in reverse order (ref)")
	budget := fs.Uint64("opbudget", 4_000_000, "per-operation step budget")
	fs.Parse(os.Args[2:])

	switch mode {
	case "classify":
		var c harness.Corpus
		readJSON(*corpus, &c)
		g := harness.NewGen(&c, *tier)
		if *summary != "" {
			writeJSON(*summary, g.Summary())
		}
		writeJSON(*out, g.Export())
	case "gen":
		var c harness.Classified
		readJSON(*corpus, &c)
		g := harness.GenFromClassified(&c, *tier)
		if *soak >= 0 {
			names := harness.EcoNames()
			if k := *soak % (len(names) + 1); k == len(names) {
				g.SoakVers = true
			} else {
				g.Soak = names[k]
			}
		}
		g.Lifetimes = *lifetimes
		g.Sweep = *sweep
		b := harness.Batch{Seed: *seed, Tier: *tier, Batch: *batch}
		for i := *from; i < *to; i++ {
			sp := g.Spec(*seed, i)
			exp, err := harness.Reference(&sp, false)
			if err != nil {
				die(2, "%v", err)
			}
			b.Cases = append(b.Cases, harness.Case{Spec: sp, Exp: exp})
		}
		writeJSON(*out, &b)
	case "ref":
		var b harness.Batch
		readJSON(*in, &b)
		// flood history (soak batches): the pool of the first such case is parsed
		// and HELD, then tens of thousands of other texts go through the library,
		// then everything is evaluated - and the held values are observed instead
		// of freshly parsed ones for that case. The forward process does neither.
		floodCase := -1
		var held interface{}
		if *reverse {
			for i := range b.Cases {
				if n := b.Cases[i].Spec.Flood; n > 0 {
					h, err := harness.HoldPool(&b.Cases[i].Spec)
					if err != nil {
						die(2, "%v", err)
					}
					harness.Flood(&b.Cases[i].Spec, n)
					floodCase, held = i, h
					break
				}
			}
		}
		for k := range b.Cases {
			i := k
			if *reverse {
				i = len(b.Cases) - 1 - k
			}
			exp, err := harness.Reference(&b.Cases[i].Spec, *reverse)
			if err != nil {
				die(2, "%v", err)
			}
			b.Cases[i].Exp = exp
		}
		if floodCase >= 0 {
			po, err := harness.ObserveHeldAny(&b.Cases[floodCase].Spec, held)
			if err != nil {
				die(2, "%v", err)
			}
			b.Cases[floodCase].Exp.Pool = po
		}
		writeJSON(*out, &b)
	case "run", "par":
		var b harness.Batch
		readJSON(*in, &b)
		if mode == "run" {
			if runtime.GOMAXPROCS(0) != 1 {
				die(2, "run mode requires GOMAXPROCS=1")
			}
			if !simrt.RaceEnabled {
				fmt.Fprintln(os.Stderr, "sim: warning: not a -race build; the race oracle is off")
			}
		}
		if mode == "run" {
			simrt.InSimulatorProcess()
		}
		simrt.StartPending(mode == "run")
		simrt.SetSites(*sites)
		simrt.SetOpBudget(*budget)
		harness.InitRaceLog(*racelog)
		res := harness.BatchResult{Batch: b.Batch}
		pairSet := map[uint64]struct{}{}
		for i := range b.Cases {
			n := 1
			if mode == "par" {
				n = *reps
			}
			for r := 0; r < n; r++ {
				rr := harness.Execute(&b.Cases[i], harness.ExecOptions{KeepSwitches: *keep, KeepResults: *keep, Parallel: mode == "par", Lifetimes: *lifetimes})
				for _, h := range rr.Stats.PairFP {
					if len(pairSet) < 50000 {
						pairSet[h] = struct{}{}
					}
				}
				rr.Stats.PairFP = nil
				res.Runs = append(res.Runs, rr)
				if (rr.Stats.Aborted != "" && rr.Stats.Aborted != "harness-limit") || rr.HarnessErr != "" {
					res.Stopped = fmt.Sprintf("run %d: %s %s", rr.Index, rr.Stats.Aborted, rr.HarnessErr)
					break
				}
			}
			if res.Stopped != "" {
				break
			}
		}
		res.SiteHits = simrt.SiteHits
		res.SitePreempt = simrt.SitePreempt
		for h := range pairSet {
			res.PairFP = append(res.PairFP, h)
		}
		writeJSON(*out, &res)
	default:
		die(2, "unknown mode %q", mode)
	}
}
