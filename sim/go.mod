module verifsim

go 1.24
