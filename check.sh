#!/bin/bash
# Registered check command: ./check.sh <quick|thorough> C19
# exit 0 = held on everything explored; exit 1 = VIOLATION line(s) printed;
# exit 2 = could not decide (build, watchdog, harness fault) - never a VIOLATION.
set -uo pipefail
cd "$(dirname "$0")"
tier="${1:-quick}"
prop="${2:-C19}"
if [ "$prop" != "C19" ]; then echo "check.sh: only C19 is decided by this technique (see DESIGN.md)"; exit 2; fi
export GOFLAGS=-mod=mod GOPROXY=off GOWORK=off
unset GOROOT || true
if [ ! -x bin/vsim ] || [ -n "$(find sim -newer bin/vsim -name '*.go' -print -quit 2>/dev/null)" ]; then
  ./setup.sh >/dev/null || { echo "check.sh: setup failed"; exit 2; }
fi
exec ./bin/vsim check -tier "$tier"
