#!/bin/bash
# Build the driver (bin/vsim) offline from files on disk and warm the -race
# standard-library build cache (including the sync.Pool overlay).
set -euo pipefail
cd "$(dirname "$0")"
export GOFLAGS=-mod=mod GOPROXY=off GOWORK=off
unset GOROOT || true
resolve_goroot() {
  local gr
  gr=$(cd /repo && GOTOOLCHAIN=auto go env GOROOT 2>/dev/null || true)
  if [ -n "$gr" ] && [ -x "$gr/bin/go" ]; then echo "$gr"; return; fi
  gr=$(GOTOOLCHAIN=local go1.26.8 env GOROOT 2>/dev/null || true)
  if [ -n "$gr" ] && [ -x "$gr/bin/go" ]; then echo "$gr"; return; fi
  echo "setup: no usable Go toolchain" >&2; exit 2
}
GR=$(resolve_goroot)
mkdir -p bin
(cd sim && GOTOOLCHAIN=local GOROOT="$GR" "$GR/bin/go" build -o ../bin/vsim ./cmd/vsim)
# warm caches: one scratch build (removed afterwards)
T=$(mktemp -d "${TMPDIR:-/tmp}/vsim-setup-XXXXXX")
trap 'rm -rf "$T"' EXIT
./bin/vsim build -out "$T" >/dev/null
echo "setup: ok ($("$GR/bin/go" version))"
